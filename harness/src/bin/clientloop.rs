//! End-to-end driver for M-LOOP: the real `rumqttc::EventLoop` (v4) over an in-memory transport
//! (`rumqttc::verif::set_connector`, a `tokio::io::duplex` pair) under paused tokio time, with a
//! scripted broker on the other end.  Everything after `network_connect` runs unmodified.
//!   LNEW <max_inflight> <manual_acks>     new AsyncClient + EventLoop (clean_session = false)
//!   LNEW5 <max_inflight> <manual_acks>    the same on rumqttc::v5 (clean_start = false; the limit is outgoing_inflight_upper_limit);
//!                                         ACCEPT then takes the CONNACK properties: ACCEPT <sp> [<receive_max|-> [<topic_alias_max|->]],
//!                                         packets are written in the v5 text form (acks: <kind> <id> [<reason>], DISCONNECT [<reason>])
//!   SEND <request>                        AsyncClient::try_publish / try_subscribe / ... (channel)
//!   ACCEPT <session_present>              the broker will accept the next connection (CONNACK queued)
//!   NET <packet> [; <packet>]*            the broker writes these packets (read by a later POLL)
//!   DROP                                  the broker closes the connection
//!   POLL                                  one EventLoop::poll(), bounded by 1 ms of virtual time
//!   POLLT <ms>                            one EventLoop::poll(), bounded by <ms> of virtual time; broker writes
//!                                         scheduled with NETAT happen while it runs (poll() is not cancelled by them)
//!   NETAT <delay_ms> <packet> [; ..]*     the broker will write these packets <delay_ms> from now
//!   (LNEW takes an optional third argument: pending_throttle in ms)
//!   FINISH                                EventLoop::clean(), then print what the client still holds
//! Answers: OK | EVENT <event> WIRE[<packets the broker received>] | ERROR <kind> WIRE[..] | IDLE WIRE[..] | PANIC WIRE[..] (poll() panicked)
//!          | HELD [<requests>]
use futures_util::FutureExt;
use rumqttc::verif::{set_connector, AsyncReadWrite, Network};
use rumqttc::*;
use std::cell::RefCell;
use std::io::{self, BufRead, BufWriter, Write};
use std::rc::Rc;
use std::time::Duration;
use tokio::io::DuplexStream;
use verif_harness::*;

fn qos(s: &str) -> QoS {
    match s {
        "0" => QoS::AtMostOnce,
        "1" => QoS::AtLeastOnce,
        "2" => QoS::ExactlyOnce,
        _ => panic!("bad qos"),
    }
}
fn num(s: &str) -> u16 {
    s.parse().expect("number")
}
fn tag(s: &str) -> String {
    match s.strip_prefix('t') {
        Some(r) if r.parse::<u64>().is_ok() => r.to_string(),
        _ => format!("x{}", hex(s.as_bytes())),
    }
}
fn ptag(b: &[u8]) -> String {
    match std::str::from_utf8(b) {
        Ok(r) if r.parse::<u64>().is_ok() => r.to_string(),
        _ => format!("x{}", hex(b)),
    }
}
fn pub_s(p: &Publish) -> String {
    format!("PUB:{}:{}:{}:{}", p.qos as u8, p.pkid, tag(&p.topic), ptag(&p.payload))
}
fn packet_s(p: &Packet) -> String {
    match p {
        Packet::Connect(_) => "CONNECT".into(),
        Packet::ConnAck(c) => format!("CONNACK:{}:{}", c.session_present as u8, if c.code == ConnectReturnCode::Success { 0 } else { 5 }),
        Packet::Publish(p) => pub_s(p),
        Packet::PubAck(a) => format!("PUBACK:{}", a.pkid),
        Packet::PubRec(a) => format!("PUBREC:{}", a.pkid),
        Packet::PubRel(a) => format!("PUBREL:{}", a.pkid),
        Packet::PubComp(a) => format!("PUBCOMP:{}", a.pkid),
        Packet::Subscribe(s) => format!("SUB:{}:{}", s.pkid, s.filters.len()),
        Packet::SubAck(s) => format!("SUBACK:{}", s.pkid),
        Packet::Unsubscribe(s) => format!("UNSUB:{}:{}", s.pkid, s.topics.len()),
        Packet::UnsubAck(s) => format!("UNSUBACK:{}", s.pkid),
        Packet::PingReq => "PINGREQ".into(),
        Packet::PingResp => "PINGRESP".into(),
        Packet::Disconnect => "DISCONNECT".into(),
    }
}
fn request_s(r: &Request) -> String {
    match r {
        Request::Publish(p) => pub_s(p),
        Request::PubAck(a) => format!("PUBACK:{}", a.pkid),
        Request::PubRec(a) => format!("PUBREC:{}", a.pkid),
        Request::PubComp(a) => format!("PUBCOMP:{}", a.pkid),
        Request::PubRel(a) => format!("PUBREL:{}", a.pkid),
        Request::PingReq(_) => "PINGREQ".into(),
        Request::PingResp(_) => "PINGRESP".into(),
        Request::Subscribe(s) => format!("SUB:{}:{}", s.pkid, s.filters.len()),
        Request::SubAck(s) => format!("SUBACK:{}", s.pkid),
        Request::Unsubscribe(s) => format!("UNSUB:{}:{}", s.pkid, s.topics.len()),
        Request::UnsubAck(s) => format!("UNSUBACK:{}", s.pkid),
        Request::Disconnect(_) => "DISCONNECT".into(),
    }
}
fn event_s(e: &Event) -> String {
    match e {
        Event::Incoming(p) => format!("I({})", packet_s(p)),
        Event::Outgoing(o) => format!(
            "O({})",
            match o {
                Outgoing::Publish(i) => format!("PUB:{i}"),
                Outgoing::Subscribe(i) => format!("SUB:{i}"),
                Outgoing::Unsubscribe(i) => format!("UNSUB:{i}"),
                Outgoing::PubAck(i) => format!("PUBACK:{i}"),
                Outgoing::PubRec(i) => format!("PUBREC:{i}"),
                Outgoing::PubRel(i) => format!("PUBREL:{i}"),
                Outgoing::PubComp(i) => format!("PUBCOMP:{i}"),
                Outgoing::PingReq => "PINGREQ".into(),
                Outgoing::PingResp => "PINGRESP".into(),
                Outgoing::Disconnect => "DISCONNECT".into(),
                Outgoing::AwaitAck(i) => format!("AWAITACK:{i}"),
            }
        ),
    }
}
fn error_s(e: &ConnectionError) -> String {
    match e {
        ConnectionError::MqttState(s) => match s {
            StateError::Unsolicited(i) => format!("Unsolicited:{i}"),
            StateError::AwaitPingResp => "AwaitPingResp".into(),
            StateError::WrongPacket => "WrongPacket".into(),
            StateError::CollisionTimeout => "CollisionTimeout".into(),
            StateError::EmptySubscription => "EmptySubscription".into(),
            StateError::ConnectionAborted => "ConnectionAborted".into(),
            StateError::Io(_) => "Io".into(),
            StateError::Deserialization(_) => "Deserialization".into(),
            StateError::InvalidState => "InvalidState".into(),
        },
        ConnectionError::NetworkTimeout => "NetworkTimeout".into(),
        ConnectionError::FlushTimeout => "FlushTimeout".into(),
        ConnectionError::Io(_) => "Io".into(),
        ConnectionError::ConnectionRefused(_) => "ConnectionRefused".into(),
        ConnectionError::NotConnAck(_) => "NotConnAck".into(),
        ConnectionError::RequestsDone => "RequestsDone".into(),
    }
}
fn mk_pub(t: &[&str]) -> Publish {
    let mut p = Publish::new(format!("t{}", t[2]), qos(t[0]), t[3].as_bytes().to_vec());
    p.pkid = num(t[1]);
    p
}
fn broker_packet(t: &[&str]) -> Packet {
    match t[0] {
        "PUB" => Packet::Publish(mk_pub(&t[1..])),
        "PUBACK" => Packet::PubAck(PubAck::new(num(t[1]))),
        "PUBREC" => Packet::PubRec(PubRec::new(num(t[1]))),
        "PUBREL" => Packet::PubRel(PubRel::new(num(t[1]))),
        "PUBCOMP" => Packet::PubComp(PubComp::new(num(t[1]))),
        "SUBACK" => Packet::SubAck(SubAck::new(num(t[1]), vec![SubscribeReasonCode::Success(QoS::AtMostOnce)])),
        "UNSUBACK" => Packet::UnsubAck(UnsubAck::new(num(t[1]))),
        "PINGRESP" => Packet::PingResp,
        "PINGREQ" => Packet::PingReq,
        o => panic!("bad broker packet {o}"),
    }
}


// ---------------------------------------------------------------------------------------------
// keep-alive scenarios (C18): the real event loop polled continuously ("prompt polling") against a
// scripted broker, under paused tokio time; every timestamp is virtual ms since the scenario began.
//   KA <ver> <ka_ms> <delays,..> <silent_from> <none|up|down|full1|full2|coll> <period_ms> <horizon_ms> [<server_keep_alive_s>]
//      -> KA C@<t> PINGS[<t> ..] RESPS[<t> ..] END <ERROR <kind>|HORIZON>@<t>
//   KACONN <ver> <timeout_s> <handshake_ms|never>
//      -> KACONN CONNECTED@<t> | KACONN ERROR <kind>@<t>
struct KaArgs {
    broker_first: bool,
    ka_ms: u64,
    delays: Vec<u64>,
    silent_from: usize,
    traffic: String,
    period: u64,
    horizon: u64,
    server_ka: Option<u16>,
}

fn ka_args(t: &[&str]) -> KaArgs {
    KaArgs {
        broker_first: t[1].ends_with('b'),
        ka_ms: t[2].parse().unwrap(),
        delays: t[3].split(',').map(|x| x.parse().unwrap()).collect(),
        silent_from: t[4].parse().unwrap(),
        traffic: t[5].to_string(),
        period: t[6].parse().unwrap(),
        horizon: t[7].parse().unwrap(),
        server_ka: if t.len() > 8 { Some(t[8].parse().unwrap()) } else { None },
    }
}

fn ms(start: tokio::time::Instant) -> u64 {
    (tokio::time::Instant::now() - start).as_millis() as u64
}

macro_rules! ka_scenario {
    ($name:ident, $netty:ty, $mknet:expr, $client:ty, $evloop:ty, $newclient:expr, $opts:expr, $connack:expr,
     $is_ping:expr, $pingresp:expr, $down:expr, $up:expr, $is_connack:expr, $err:expr,
     $setinfl:expr, $pub1:expr, $is_pub2:expr, $puback2:expr) => {
        async fn $name(a: KaArgs, next_socket: &Rc<RefCell<Option<DuplexStream>>>) -> String {
            // traffic full1 / full2: max_inflight 1 / 2 and that many QoS1 publishes the broker never
            // acknowledges (the window stays full across every keep-alive expiry); coll: max_inflight 2,
            // three QoS1 publishes, the broker acknowledges id 2 only: the third is parked on id 1
            let (infl, n_pre): (Option<u16>, u8) = match a.traffic.as_str() {
                "full1" => (Some(1), 1),
                "full2" => (Some(2), 2),
                "coll" => (Some(2), 3),
                _ => (None, 0),
            };
            let start = tokio::time::Instant::now();
            let (client_end, broker_end) = tokio::io::duplex(1 << 20);
            *next_socket.borrow_mut() = Some(client_end);
            let mut bn: $netty = $mknet(broker_end);
            let _ = bn.write($connack(a.server_ka)).await;
            let _ = bn.flush().await;
            let mut o = $opts(a.ka_ms);
            if let Some(n) = infl {
                ($setinfl)(&mut o, n);
            }
            let (client, mut el): ($client, $evloop) = $newclient(o);
            for k in 1..=n_pre {
                let _ = ($pub1)(&client, k);
            }
            let pings: RefCell<Vec<u64>> = RefCell::new(vec![]);
            let resps: RefCell<Vec<u64>> = RefCell::new(vec![]);
            let conn_at: RefCell<Option<u64>> = RefCell::new(None);
            let client_fut = async {
                loop {
                    match el.poll().await {
                        Ok(ev) => {
                            if $is_connack(&ev) && conn_at.borrow().is_none() {
                                *conn_at.borrow_mut() = Some(ms(start));
                            }
                        }
                        Err(e) => return (($err)(&e), ms(start)),
                    }
                }
            };
            let broker_fut = async {
                let mut due: std::collections::VecDeque<u64> = Default::default();
                let mut next_down = a.period;
                let mut k = 0usize;
                loop {
                    let reply_at = due.front().copied();
                    tokio::select! {
                        biased;
                        p = bn.read() => match p {
                            Ok(p) => {
                                if $is_ping(&p) {
                                    let t = ms(start);
                                    pings.borrow_mut().push(t);
                                    k += 1;
                                    if a.silent_from == 0 || k < a.silent_from {
                                        due.push_back(t + a.delays[(k - 1) % a.delays.len()]);
                                    }
                                } else if a.traffic == "coll" && ($is_pub2)(&p) {
                                    let _ = bn.write($puback2).await;
                                    let _ = bn.flush().await;
                                }
                            }
                            Err(_) => std::future::pending::<()>().await,
                        },
                        _ = tokio::time::sleep_until(start + Duration::from_millis(reply_at.unwrap_or(0))), if reply_at.is_some() => {
                            due.pop_front();
                            resps.borrow_mut().push(ms(start));
                            let _ = bn.write($pingresp).await;
                            let _ = bn.flush().await;
                        }
                        _ = tokio::time::sleep_until(start + Duration::from_millis(next_down)), if a.traffic == "down" => {
                            next_down += a.period;
                            let _ = bn.write($down).await;
                            let _ = bn.flush().await;
                        }
                    }
                }
            };
            let up_fut = async {
                if a.traffic == "up" {
                    let mut next = a.period;
                    loop {
                        tokio::time::sleep_until(start + Duration::from_millis(next)).await;
                        next += a.period;
                        let _ = ($up)(&client);
                    }
                } else {
                    std::future::pending::<()>().await
                }
            };
            let end = if a.broker_first {
                tokio::select! {
                    biased;
                    _ = broker_fut => unreachable!(),
                    _ = up_fut => unreachable!(),
                    r = client_fut => format!("ERROR {}@{}", r.0, r.1),
                    _ = tokio::time::sleep_until(start + Duration::from_millis(a.horizon)) => format!("HORIZON@{}", ms(start)),
                }
            } else {
                tokio::select! {
                    biased;
                    r = client_fut => format!("ERROR {}@{}", r.0, r.1),
                    _ = broker_fut => unreachable!(),
                    _ = up_fut => unreachable!(),
                    _ = tokio::time::sleep_until(start + Duration::from_millis(a.horizon)) => format!("HORIZON@{}", ms(start)),
                }
            };
            let f = |v: &RefCell<Vec<u64>>| v.borrow().iter().map(|x| x.to_string()).collect::<Vec<_>>().join(" ");
            let c = conn_at.borrow().map(|x| x.to_string()).unwrap_or("-".into());
            format!("KA C@{} PINGS[{}] RESPS[{}] END {}", c, f(&pings), f(&resps), end)
        }
    };
}

fn opts4(ka_ms: u64) -> MqttOptions {
    let mut o = MqttOptions::new("verif", "localhost", 1883);
    o.set_keep_alive(Duration::from_millis(ka_ms));
    o
}
fn opts5(ka_ms: u64) -> rumqttc::v5::MqttOptions {
    let mut o = rumqttc::v5::MqttOptions::new("verif", "localhost", 1883);
    o.set_keep_alive(Duration::from_millis(ka_ms));
    o
}
fn err5(e: &rumqttc::v5::ConnectionError) -> String {
    use rumqttc::v5::{ConnectionError as CE, StateError as SE};
    match e {
        CE::MqttState(SE::AwaitPingResp) => "AwaitPingResp".into(),
        CE::MqttState(SE::CollisionTimeout) => "CollisionTimeout".into(),
        CE::MqttState(SE::ConnectionAborted) => "ConnectionAborted".into(),
        CE::Timeout(_) => "NetworkTimeout".into(),
        other => format!("Other:{}", format!("{other:?}").split(|c: char| !c.is_alphanumeric()).next().unwrap_or("")),
    }
}
fn connack5(server_ka: Option<u16>) -> rumqttc::v5::mqttbytes::v5::Packet {
    use rumqttc::v5::mqttbytes::v5 as m;
    let properties = server_ka.map(|k| m::ConnAckProperties {
        session_expiry_interval: None, receive_max: None, max_qos: None, retain_available: None, max_packet_size: None,
        assigned_client_identifier: None, topic_alias_max: None, reason_string: None, user_properties: vec![],
        wildcard_subscription_available: None, subscription_identifiers_available: None, shared_subscription_available: None,
        server_keep_alive: Some(k), response_information: None, server_reference: None, authentication_method: None,
        authentication_data: None,
    });
    m::Packet::ConnAck(m::ConnAck { session_present: false, code: m::ConnectReturnCode::Success, properties })
}

ka_scenario!(
    ka4, Network, |s: DuplexStream| Network::new(s, 1 << 20, 1 << 20), AsyncClient, EventLoop,
    |o: MqttOptions| AsyncClient::new(o, 1000), opts4,
    |_k: Option<u16>| Packet::ConnAck(ConnAck::new(ConnectReturnCode::Success, false)),
    |p: &Packet| matches!(p, Packet::PingReq), Packet::PingResp,
    Packet::Publish(Publish::new("d", QoS::AtMostOnce, vec![1u8])),
    |c: &AsyncClient| c.try_publish("u", QoS::AtMostOnce, false, vec![1u8]),
    |e: &Event| matches!(e, Event::Incoming(Packet::ConnAck(_))), error_s,
    |o: &mut MqttOptions, n: u16| { o.set_inflight(n); },
    |c: &AsyncClient, k: u8| c.try_publish("u", QoS::AtLeastOnce, false, vec![k]),
    |p: &Packet| matches!(p, Packet::Publish(x) if x.pkid == 2), Packet::PubAck(PubAck::new(2))
);
ka_scenario!(
    ka5, rumqttc::verif::NetworkV5, |s: DuplexStream| rumqttc::verif::NetworkV5::new(s, Some(1 << 20)),
    rumqttc::v5::AsyncClient, rumqttc::v5::EventLoop,
    |o: rumqttc::v5::MqttOptions| rumqttc::v5::AsyncClient::new(o, 1000), opts5, connack5,
    |p: &rumqttc::v5::mqttbytes::v5::Packet| matches!(p, rumqttc::v5::mqttbytes::v5::Packet::PingReq(_)),
    rumqttc::v5::mqttbytes::v5::Packet::PingResp(rumqttc::v5::mqttbytes::v5::PingResp),
    rumqttc::v5::mqttbytes::v5::Packet::Publish(rumqttc::v5::mqttbytes::v5::Publish::new("d", rumqttc::v5::mqttbytes::QoS::AtMostOnce, vec![1u8], None)),
    |c: &rumqttc::v5::AsyncClient| c.try_publish("u", rumqttc::v5::mqttbytes::QoS::AtMostOnce, false, vec![1u8]),
    |e: &rumqttc::v5::Event| matches!(e, rumqttc::v5::Event::Incoming(rumqttc::v5::mqttbytes::v5::Packet::ConnAck(_))), err5,
    |o: &mut rumqttc::v5::MqttOptions, n: u16| { o.set_outgoing_inflight_upper_limit(n); },
    |c: &rumqttc::v5::AsyncClient, k: u8| c.try_publish("u", rumqttc::v5::mqttbytes::QoS::AtLeastOnce, false, vec![k]),
    |p: &rumqttc::v5::mqttbytes::v5::Packet| matches!(p, rumqttc::v5::mqttbytes::v5::Packet::Publish(x) if x.pkid == 2),
    rumqttc::v5::mqttbytes::v5::Packet::PubAck(rumqttc::v5::mqttbytes::v5::PubAck::new(2, None))
);


// keep-alive across a reconnection (C18): connection 1 ends with a PINGREQ outstanding (the broker
// never answers: AwaitPingResp; or it closes the connection at <ms>), the same EventLoop reconnects
// at once to a broker that answers every PINGREQ after ka/8.
//   KAR <ver> <ka_ms> <silent|drop@ms> <horizon_ms>
//      -> KAR PINGS1[..] ERR1 <kind>@<t> C2@<t> PINGS2[..] END <ERROR <kind>|HORIZON>@<t>
macro_rules! kar_scenario {
    ($name:ident, $netty:ty, $mknet:expr, $client:ty, $evloop:ty, $newclient:expr, $opts:expr, $connack:expr,
     $is_ping:expr, $pingresp:expr, $is_connack:expr, $err:expr) => {
        async fn $name(ka_ms: u64, first: &str, horizon: u64, next_socket: &Rc<RefCell<Option<DuplexStream>>>) -> String {
            let start = tokio::time::Instant::now();
            let drop_at: Option<u64> = first.strip_prefix("drop@").map(|x| x.parse().unwrap());
            let (client_end, broker_end) = tokio::io::duplex(1 << 20);
            *next_socket.borrow_mut() = Some(client_end);
            let mut bn: $netty = $mknet(broker_end);
            let _ = bn.write($connack(None)).await;
            let _ = bn.flush().await;
            let (_client, mut el): ($client, $evloop) = $newclient($opts(ka_ms));
            let mut pings1: Vec<u64> = vec![];
            // ---- connection 1
            let err1 = {
                let client_fut = async { loop { if let Err(e) = el.poll().await { return (($err)(&e), ms(start)) } } };
                let broker_fut = async {
                    loop {
                        tokio::select! {
                            biased;
                            p = bn.read() => match p { Ok(p) => { if $is_ping(&p) { pings1.push(ms(start)); } } Err(_) => std::future::pending::<()>().await },
                            _ = tokio::time::sleep_until(start + Duration::from_millis(drop_at.unwrap_or(0))), if drop_at.is_some() => { return; }
                        }
                    }
                };
                tokio::pin!(client_fut);
                tokio::select! {
                    biased;
                    r = &mut client_fut => r,
                    _ = broker_fut => { drop(bn); client_fut.await }
                }
            };
            // ---- connection 2: reconnect at once, every PINGREQ answered after ka/8
            let (client_end, broker_end) = tokio::io::duplex(1 << 20);
            *next_socket.borrow_mut() = Some(client_end);
            let mut bn: $netty = $mknet(broker_end);
            let _ = bn.write($connack(None)).await;
            let _ = bn.flush().await;
            let pings2: RefCell<Vec<u64>> = RefCell::new(vec![]);
            let c2: RefCell<Option<u64>> = RefCell::new(None);
            let client_fut = async {
                loop {
                    match el.poll().await {
                        Ok(ev) => { if $is_connack(&ev) && c2.borrow().is_none() { *c2.borrow_mut() = Some(ms(start)); } }
                        Err(e) => return (($err)(&e), ms(start)),
                    }
                }
            };
            let broker_fut = async {
                let mut due: std::collections::VecDeque<u64> = Default::default();
                loop {
                    let reply_at = due.front().copied();
                    tokio::select! {
                        biased;
                        p = bn.read() => match p { Ok(p) => { if $is_ping(&p) { let t = ms(start); pings2.borrow_mut().push(t); due.push_back(t + ka_ms / 8); } } Err(_) => std::future::pending::<()>().await },
                        _ = tokio::time::sleep_until(start + Duration::from_millis(reply_at.unwrap_or(0))), if reply_at.is_some() => {
                            due.pop_front();
                            let _ = bn.write($pingresp).await;
                            let _ = bn.flush().await;
                        }
                    }
                }
            };
            let end = tokio::select! {
                biased;
                r = client_fut => format!("ERROR {}@{}", r.0, r.1),
                _ = broker_fut => unreachable!(),
                _ = tokio::time::sleep_until(start + Duration::from_millis(horizon)) => format!("HORIZON@{}", ms(start)),
            };
            let f = |v: &Vec<u64>| v.iter().map(|x| x.to_string()).collect::<Vec<_>>().join(" ");
            let c2s = c2.borrow().map(|x| x.to_string()).unwrap_or("-".into());
            format!("KAR PINGS1[{}] ERR1 {}@{} C2@{} PINGS2[{}] END {}", f(&pings1), err1.0, err1.1, c2s, f(&pings2.borrow()), end)
        }
    };
}
kar_scenario!(
    kar4, Network, |s: DuplexStream| Network::new(s, 1 << 20, 1 << 20), AsyncClient, EventLoop,
    |o: MqttOptions| AsyncClient::new(o, 1000), opts4,
    |_k: Option<u16>| Packet::ConnAck(ConnAck::new(ConnectReturnCode::Success, false)),
    |p: &Packet| matches!(p, Packet::PingReq), Packet::PingResp,
    |e: &Event| matches!(e, Event::Incoming(Packet::ConnAck(_))), error_s
);
kar_scenario!(
    kar5, rumqttc::verif::NetworkV5, |s: DuplexStream| rumqttc::verif::NetworkV5::new(s, Some(1 << 20)),
    rumqttc::v5::AsyncClient, rumqttc::v5::EventLoop,
    |o: rumqttc::v5::MqttOptions| rumqttc::v5::AsyncClient::new(o, 1000), opts5, connack5,
    |p: &rumqttc::v5::mqttbytes::v5::Packet| matches!(p, rumqttc::v5::mqttbytes::v5::Packet::PingReq(_)),
    rumqttc::v5::mqttbytes::v5::Packet::PingResp(rumqttc::v5::mqttbytes::v5::PingResp),
    |e: &rumqttc::v5::Event| matches!(e, rumqttc::v5::Event::Incoming(rumqttc::v5::mqttbytes::v5::Packet::ConnAck(_))), err5
);

/// the connect step alone: the broker answers the CONNECT after `handshake` ms, or never
async fn kaconn(ver: &str, timeout_s: u64, handshake: Option<u64>, next_socket: &Rc<RefCell<Option<DuplexStream>>>) -> String {
    let start = tokio::time::Instant::now();
    let (client_end, broker_end) = tokio::io::duplex(1 << 20);
    *next_socket.borrow_mut() = Some(client_end);
    let res = if ver == "4" {
        let mut bn = Network::new(broker_end, 1 << 20, 1 << 20);
        let (_c, mut el) = AsyncClient::new(opts4(60_000), 10);
        let mut no = NetworkOptions::new();
        no.set_connection_timeout(timeout_s);
        el.set_network_options(no);
        let broker = async {
            match handshake {
                Some(h) => {
                    tokio::time::sleep_until(start + Duration::from_millis(h)).await;
                    let _ = bn.write(Packet::ConnAck(ConnAck::new(ConnectReturnCode::Success, false))).await;
                    let _ = bn.flush().await;
                    std::future::pending::<()>().await
                }
                None => std::future::pending::<()>().await,
            }
        };
        tokio::select! {
            biased;
            r = el.poll() => match r { Ok(_) => format!("CONNECTED@{}", ms(start)), Err(e) => format!("ERROR {}@{}", error_s(&e), ms(start)) },
            _ = broker => unreachable!(),
        }
    } else {
        let mut bn = rumqttc::verif::NetworkV5::new(broker_end, Some(1 << 20));
        let mut o = opts5(60_000);
        o.set_connection_timeout(timeout_s);
        let (_c, mut el) = rumqttc::v5::AsyncClient::new(o, 10);
        let broker = async {
            match handshake {
                Some(h) => {
                    tokio::time::sleep_until(start + Duration::from_millis(h)).await;
                    let _ = bn.write(connack5(None)).await;
                    let _ = bn.flush().await;
                    std::future::pending::<()>().await
                }
                None => std::future::pending::<()>().await,
            }
        };
        tokio::select! {
            biased;
            r = el.poll() => match r { Ok(_) => format!("CONNECTED@{}", ms(start)), Err(e) => format!("ERROR {}@{}", err5(&e), ms(start)) },
            _ = broker => unreachable!(),
        }
    };
    format!("KACONN {}", res)
}

// ---------------------------------------------------------------------------------------------
// read bursts (C10): the broker writes <n> packets at once; the loop is polled until it goes idle.
//   BURST <ver> <n> <1|2|m>   -> BURST I[<incoming notifications>] W[<packets the broker received>] END <IDLE|ERROR kind>
macro_rules! burst_scenario {
    ($name:ident, $netty:ty, $mknet:expr, $evloop:ty, $newclient:expr, $opts:expr, $connack:expr, $mkpub:expr,
     $ev_in:expr, $pkt_s:expr, $err:expr) => {
        async fn $name(n: usize, mix: &str, next_socket: &Rc<RefCell<Option<DuplexStream>>>) -> String {
            let (client_end, broker_end) = tokio::io::duplex(1 << 22);
            *next_socket.borrow_mut() = Some(client_end);
            let mut bn: $netty = $mknet(broker_end);
            let _ = bn.write($connack(None)).await;
            let _ = bn.flush().await;
            let (_client, mut el): (_, $evloop) = $newclient($opts(3_600_000));
            let mut ins: Vec<String> = vec![];
            let mut end = "IDLE".to_string();
            // connect first
            let _ = tokio::time::timeout(Duration::from_millis(10), el.poll()).await;
            for k in 1..=n {
                let q = match mix { "1" => 1u8, "2" => 2u8, _ => (k % 3) as u8 };
                let _ = bn.write($mkpub(q, k as u16)).await;
            }
            let _ = bn.flush().await;
            loop {
                match tokio::time::timeout(Duration::from_millis(50), el.poll()).await {
                    Err(_) => break,
                    Ok(Ok(ev)) => { if let Some(x) = ($ev_in)(&ev) { ins.push(x) } }
                    Ok(Err(e)) => { end = format!("ERROR {}", ($err)(&e)); break }
                }
            }
            let mut w: Vec<String> = vec![];
            loop {
                match bn.read().now_or_never() {
                    Some(Ok(p)) => w.push(($pkt_s)(&p)),
                    _ => break,
                }
            }
            format!("BURST I[{}] W[{}] END {}", ins.join(" "), w.join(" "), end)
        }
    };
}
fn pkt5_s(p: &rumqttc::v5::mqttbytes::v5::Packet) -> String {
    use rumqttc::v5::mqttbytes::v5::Packet as P;
    match p {
        P::Connect(..) => "CONNECT".into(),
        P::Publish(p) => format!("PUB:{}:{}", p.qos as u8, p.pkid),
        P::PubAck(a) => format!("PUBACK:{}", a.pkid),
        P::PubRec(a) => format!("PUBREC:{}", a.pkid),
        P::PubRel(a) => format!("PUBREL:{}", a.pkid),
        P::PubComp(a) => format!("PUBCOMP:{}", a.pkid),
        P::PingReq(_) => "PINGREQ".into(),
        other => format!("OTHER:{}", format!("{other:?}").split(|c: char| !c.is_alphanumeric()).next().unwrap_or("")),
    }
}
burst_scenario!(
    burst4, Network, |s: DuplexStream| Network::new(s, 1 << 20, 1 << 20), EventLoop,
    |o: MqttOptions| AsyncClient::new(o, 10), opts4,
    |_k: Option<u16>| Packet::ConnAck(ConnAck::new(ConnectReturnCode::Success, false)),
    |q: u8, id: u16| { let mut p = Publish::new(format!("t{id}"), qos(&q.to_string()), id.to_string().into_bytes()); p.pkid = if q == 0 { 0 } else { id }; Packet::Publish(p) },
    |e: &Event| match e { Event::Incoming(Packet::Publish(p)) => Some(format!("PUB:{}:{}:{}", p.qos as u8, p.pkid, ptag(&p.payload))), Event::Incoming(Packet::ConnAck(_)) => None, Event::Incoming(p) => Some(packet_s(p)), _ => None },
    |p: &Packet| packet_s(p), error_s
);
burst_scenario!(
    burst5, rumqttc::verif::NetworkV5, |s: DuplexStream| rumqttc::verif::NetworkV5::new(s, Some(1 << 20)), rumqttc::v5::EventLoop,
    |o: rumqttc::v5::MqttOptions| rumqttc::v5::AsyncClient::new(o, 10), opts5, connack5,
    |q: u8, id: u16| {
        let mut p = rumqttc::v5::mqttbytes::v5::Publish::new(format!("t{id}"), match q { 0 => rumqttc::v5::mqttbytes::QoS::AtMostOnce, 1 => rumqttc::v5::mqttbytes::QoS::AtLeastOnce, _ => rumqttc::v5::mqttbytes::QoS::ExactlyOnce }, id.to_string().into_bytes(), None);
        p.pkid = if q == 0 { 0 } else { id };
        rumqttc::v5::mqttbytes::v5::Packet::Publish(p)
    },
    |e: &rumqttc::v5::Event| match e {
        rumqttc::v5::Event::Incoming(rumqttc::v5::mqttbytes::v5::Packet::Publish(p)) => Some(format!("PUB:{}:{}:{}", p.qos as u8, p.pkid, ptag(&p.payload))),
        rumqttc::v5::Event::Incoming(rumqttc::v5::mqttbytes::v5::Packet::ConnAck(_)) => None,
        rumqttc::v5::Event::Incoming(p) => Some(pkt5_s(p)),
        _ => None,
    },
    pkt5_s, err5
);

#[allow(dead_code)]
mod t5 {
    use rumqttc::v5::mqttbytes::v5::*;
    use rumqttc::v5::mqttbytes::QoS;
    use rumqttc::v5::{Event, MqttState, Request, StateError};
    use rumqttc::Outgoing;

    pub fn qos(s: &str) -> QoS {
        match s {
            "0" => QoS::AtMostOnce,
            "1" => QoS::AtLeastOnce,
            "2" => QoS::ExactlyOnce,
            _ => panic!("bad qos"),
        }
    }
    fn num(s: &str) -> u16 {
        s.parse().expect("number")
    }
    fn optn(s: &str) -> Option<u16> {
        if s == "-" { None } else { Some(num(s)) }
    }
    /// topic tag 0 = the empty topic
    pub fn mk_pub(t: &[&str]) -> Publish {
        let topic = if t[2] == "0" { String::new() } else { format!("t{}", t[2]) };
        let alias = if t.len() > 4 { optn(t[4]) } else { None };
        let props = alias.map(|a| PublishProperties { topic_alias: Some(a), ..Default::default() });
        let mut p = Publish::new(topic, qos(t[0]), t[3].as_bytes().to_vec(), props);
        p.pkid = num(t[1]);
        p
    }
    fn tag(b: &[u8]) -> String {
        if b.is_empty() {
            return "0".into();
        }
        match std::str::from_utf8(b).ok().and_then(|s| s.strip_prefix('t')) {
            Some(r) if r.parse::<u64>().is_ok() => r.to_string(),
            _ => format!("x{}", crate::hex(b)),
        }
    }
    fn ptag(b: &[u8]) -> String {
        match std::str::from_utf8(b) {
            Ok(r) if r.parse::<u64>().is_ok() => r.to_string(),
            _ => format!("x{}", crate::hex(b)),
        }
    }
    pub fn pub_s(p: &Publish) -> String {
        let a = p.properties.as_ref().and_then(|x| x.topic_alias).map(|a| format!(":a{a}")).unwrap_or_default();
        format!("PUB:{}:{}:{}:{}{}", p.qos as u8, p.pkid, tag(&p.topic), ptag(&p.payload), a)
    }
    fn filters(n: usize) -> Vec<Filter> {
        (0..n).map(|i| Filter::new(format!("f{i}"), QoS::AtMostOnce)).collect()
    }
    fn ack_reason(t: &[&str]) -> u8 {
        if t.len() > 2 { t[2].parse().unwrap() } else { 0 }
    }
    fn puback_reason(r: u8) -> PubAckReason {
        match r {
            0 => PubAckReason::Success,
            16 => PubAckReason::NoMatchingSubscribers,
            128 => PubAckReason::UnspecifiedError,
            135 => PubAckReason::NotAuthorized,
            151 => PubAckReason::QuotaExceeded,
            _ => panic!("unsupported puback reason {r}"),
        }
    }
    fn pubrec_reason(r: u8) -> PubRecReason {
        match r {
            0 => PubRecReason::Success,
            16 => PubRecReason::NoMatchingSubscribers,
            128 => PubRecReason::UnspecifiedError,
            135 => PubRecReason::NotAuthorized,
            151 => PubRecReason::QuotaExceeded,
            _ => panic!("unsupported pubrec reason {r}"),
        }
    }
    fn puback_n(r: PubAckReason) -> u8 {
        match r {
            PubAckReason::Success => 0,
            PubAckReason::NoMatchingSubscribers => 16,
            PubAckReason::UnspecifiedError => 128,
            PubAckReason::ImplementationSpecificError => 131,
            PubAckReason::NotAuthorized => 135,
            PubAckReason::TopicNameInvalid => 144,
            PubAckReason::PacketIdentifierInUse => 145,
            PubAckReason::QuotaExceeded => 151,
            PubAckReason::PayloadFormatInvalid => 153,
        }
    }
    fn pubrec_n(r: PubRecReason) -> u8 {
        match r {
            PubRecReason::Success => 0,
            PubRecReason::NoMatchingSubscribers => 16,
            PubRecReason::UnspecifiedError => 128,
            PubRecReason::ImplementationSpecificError => 131,
            PubRecReason::NotAuthorized => 135,
            PubRecReason::TopicNameInvalid => 144,
            PubRecReason::PacketIdentifierInUse => 145,
            PubRecReason::QuotaExceeded => 151,
            PubRecReason::PayloadFormatInvalid => 153,
        }
    }
    fn disc_reason(r: u8) -> DisconnectReasonCode {
        match r {
            0 => DisconnectReasonCode::NormalDisconnection,
            130 => DisconnectReasonCode::ProtocolError,
            139 => DisconnectReasonCode::ServerShuttingDown,
            142 => DisconnectReasonCode::SessionTakenOver,
            _ => panic!("unsupported disconnect reason {r}"),
        }
    }
    pub fn request(t: &[&str]) -> Request {
        match t[0] {
            "PUB" => Request::Publish(mk_pub(&t[1..])),
            "PUBACK" => Request::PubAck(PubAck::new(num(t[1]), None)),
            "PUBREC" => Request::PubRec(PubRec::new(num(t[1]), None)),
            "PUBCOMP" => Request::PubComp(PubComp::new(num(t[1]), None)),
            "PUBREL" => Request::PubRel(PubRel::new(num(t[1]), None)),
            "PINGREQ" => Request::PingReq,
            "PINGRESP" => Request::PingResp,
            "SUB" => Request::Subscribe(Subscribe { pkid: 0, filters: filters(num(t[1]) as usize), properties: None }),
            "SUBACK" => Request::SubAck(SubAck { pkid: num(t[1]), return_codes: vec![SubscribeReasonCode::Success(QoS::AtMostOnce)], properties: None }),
            "UNSUB" => Request::Unsubscribe(Unsubscribe { pkid: 0, filters: (0..num(t[1])).map(|i| format!("f{i}")).collect(), properties: None }),
            "UNSUBACK" => Request::UnsubAck(UnsubAck { pkid: num(t[1]), reasons: vec![UnsubAckReason::Success], properties: None }),
            "DISCONNECT" => Request::Disconnect,
            o => panic!("bad request {o}"),
        }
    }
    pub fn packet(t: &[&str]) -> Packet {
        match t[0] {
            "PUB" => Packet::Publish(mk_pub(&t[1..])),
            "PUBACK" => Packet::PubAck(PubAck { pkid: num(t[1]), reason: puback_reason(ack_reason(t)), properties: None }),
            "PUBREC" => Packet::PubRec(PubRec { pkid: num(t[1]), reason: pubrec_reason(ack_reason(t)), properties: None }),
            "PUBREL" => Packet::PubRel(PubRel {
                pkid: num(t[1]),
                reason: if ack_reason(t) == 0 { PubRelReason::Success } else { PubRelReason::PacketIdentifierNotFound },
                properties: None,
            }),
            "PUBCOMP" => Packet::PubComp(PubComp {
                pkid: num(t[1]),
                reason: if ack_reason(t) == 0 { PubCompReason::Success } else { PubCompReason::PacketIdentifierNotFound },
                properties: None,
            }),
            "SUBACK" => Packet::SubAck(SubAck { pkid: num(t[1]), return_codes: vec![SubscribeReasonCode::Success(QoS::AtMostOnce)], properties: None }),
            "UNSUBACK" => Packet::UnsubAck(UnsubAck { pkid: num(t[1]), reasons: vec![UnsubAckReason::Success], properties: None }),
            "SUB" => Packet::Subscribe(Subscribe { pkid: num(t[1]), filters: filters(num(t[2]) as usize), properties: None }),
            "UNSUB" => Packet::Unsubscribe(Unsubscribe { pkid: num(t[1]), filters: (0..num(t[2])).map(|i| format!("f{i}")).collect(), properties: None }),
            "PINGREQ" => Packet::PingReq(PingReq),
            "PINGRESP" => Packet::PingResp(PingResp),
            "CONNECT" => Packet::Connect(Connect { keep_alive: 10, client_id: "c".into(), clean_start: true, properties: None }, None, None),
            "CONNACK" => {
                let (rm, tam) = (optn(t[3]), optn(t[4]));
                let properties = if rm.is_some() || tam.is_some() {
                    Some(ConnAckProperties { receive_max: rm, topic_alias_max: tam, ..conn_props() })
                } else {
                    None
                };
                Packet::ConnAck(ConnAck {
                    session_present: t[1] == "1",
                    code: if t[2] == "0" { ConnectReturnCode::Success } else { ConnectReturnCode::NotAuthorized },
                    properties,
                })
            }
            "DISCONNECT" => Packet::Disconnect(Disconnect::new(disc_reason(if t.len() > 1 { t[1].parse().unwrap() } else { 0 }))),
            o => panic!("bad packet {o}"),
        }
    }
    fn conn_props() -> ConnAckProperties {
        ConnAckProperties {
            session_expiry_interval: None,
            receive_max: None,
            max_qos: None,
            retain_available: None,
            max_packet_size: None,
            assigned_client_identifier: None,
            topic_alias_max: None,
            reason_string: None,
            user_properties: vec![],
            wildcard_subscription_available: None,
            subscription_identifiers_available: None,
            shared_subscription_available: None,
            server_keep_alive: None,
            response_information: None,
            server_reference: None,
            authentication_method: None,
            authentication_data: None,
        }
    }
    fn ack_s(k: &str, id: u16, r: u8) -> String {
        if r == 0 { format!("{k}:{id}") } else { format!("{k}:{id}:{r}") }
    }
    fn on(x: Option<u16>) -> String {
        x.map(|v| v.to_string()).unwrap_or("-".into())
    }
    pub fn packet_s(p: &Packet) -> String {
        match p {
            Packet::Auth(_) => "AUTH".into(),
            Packet::Connect(..) => "CONNECT".into(),
            Packet::ConnAck(c) => format!(
                "CONNACK:{}:{}:{}:{}",
                c.session_present as u8,
                if c.code == ConnectReturnCode::Success { 0 } else { 135 },
                on(c.properties.as_ref().and_then(|p| p.receive_max)),
                on(c.properties.as_ref().and_then(|p| p.topic_alias_max))
            ),
            Packet::Publish(p) => pub_s(p),
            Packet::PubAck(a) => ack_s("PUBACK", a.pkid, puback_n(a.reason)),
            Packet::PubRec(a) => ack_s("PUBREC", a.pkid, pubrec_n(a.reason)),
            Packet::PubRel(a) => ack_s("PUBREL", a.pkid, if a.reason == PubRelReason::Success { 0 } else { 146 }),
            Packet::PubComp(a) => ack_s("PUBCOMP", a.pkid, if a.reason == PubCompReason::Success { 0 } else { 146 }),
            Packet::Subscribe(s) => format!("SUB:{}:{}", s.pkid, s.filters.len()),
            Packet::SubAck(s) => format!("SUBACK:{}", s.pkid),
            Packet::Unsubscribe(s) => format!("UNSUB:{}:{}", s.pkid, s.filters.len()),
            Packet::UnsubAck(s) => format!("UNSUBACK:{}", s.pkid),
            Packet::PingReq(_) => "PINGREQ".into(),
            Packet::PingResp(_) => "PINGRESP".into(),
            Packet::Disconnect(d) => {
                let r = d.reason_code as u8;
                if r == 0 { "DISCONNECT".into() } else { format!("DISCONNECT:{r}") }
            }
        }
    }
    pub fn request_s(r: &Request) -> String {
        match r {
            Request::Publish(p) => pub_s(p),
            Request::PubAck(a) => format!("PUBACK:{}", a.pkid),
            Request::PubRec(a) => format!("PUBREC:{}", a.pkid),
            Request::PubComp(a) => format!("PUBCOMP:{}", a.pkid),
            Request::PubRel(a) => format!("PUBREL:{}", a.pkid),
            Request::PingReq => "PINGREQ".into(),
            Request::PingResp => "PINGRESP".into(),
            Request::Subscribe(s) => format!("SUB:{}:{}", s.pkid, s.filters.len()),
            Request::SubAck(s) => format!("SUBACK:{}", s.pkid),
            Request::Unsubscribe(s) => format!("UNSUB:{}:{}", s.pkid, s.filters.len()),
            Request::UnsubAck(s) => format!("UNSUBACK:{}", s.pkid),
            Request::Disconnect => "DISCONNECT".into(),
        }
    }
    pub fn event_s(e: &Event) -> String {
        match e {
            Event::Incoming(p) => format!("I({})", packet_s(p)),
            Event::Outgoing(o) => format!(
                "O({})",
                match o {
                    Outgoing::Publish(i) => format!("PUB:{i}"),
                    Outgoing::Subscribe(i) => format!("SUB:{i}"),
                    Outgoing::Unsubscribe(i) => format!("UNSUB:{i}"),
                    Outgoing::PubAck(i) => format!("PUBACK:{i}"),
                    Outgoing::PubRec(i) => format!("PUBREC:{i}"),
                    Outgoing::PubRel(i) => format!("PUBREL:{i}"),
                    Outgoing::PubComp(i) => format!("PUBCOMP:{i}"),
                    Outgoing::PingReq => "PINGREQ".into(),
                    Outgoing::PingResp => "PINGRESP".into(),
                    Outgoing::Disconnect => "DISCONNECT".into(),
                    Outgoing::AwaitAck(i) => format!("AWAITACK:{i}"),
                }
            ),
        }
    }
    pub fn error_s(e: &StateError) -> String {
        match e {
            StateError::Unsolicited(i) => format!("Unsolicited:{i}"),
            StateError::AwaitPingResp => "AwaitPingResp".into(),
            StateError::WrongPacket => "WrongPacket".into(),
            StateError::CollisionTimeout => "CollisionTimeout".into(),
            StateError::EmptySubscription => "EmptySubscription".into(),
            StateError::InvalidAlias { alias, max } => format!("InvalidAlias:{alias}:{max}"),
            StateError::ServerDisconnect { reason_code, .. } => format!("ServerDisconnect:{}", *reason_code as u8),
            StateError::ConnFail { reason } => format!(
                "ConnFail:{}",
                match reason {
                    ConnectReturnCode::Success => 0,
                    ConnectReturnCode::ProtocolError => 130,
                    _ => 135,
                }
            ),
            other => format!("Other:{}", format!("{other:?}").split(|c: char| !c.is_alphanumeric()).next().unwrap_or("")),
        }
    }
    pub fn tail(s: &mut MqttState) -> String {
        let evs: Vec<String> = s.events.drain(..).map(|e| event_s(&e)).collect();
        format!("EV[{}] INFL {} COLL {}", evs.join(" "), s.inflight(), s.collision.is_some() as u8)
    }
    pub fn conn_error_s(e: &rumqttc::v5::ConnectionError) -> String {
        use rumqttc::v5::ConnectionError as CE;
        match e {
            CE::MqttState(StateError::ConnectionAborted) => "ConnectionAborted".into(),
            CE::MqttState(StateError::Io(_)) => "Io".into(),
            CE::MqttState(StateError::Deserialization(_)) => "Deserialization".into(),
            CE::MqttState(StateError::InvalidState) => "InvalidState".into(),
            CE::MqttState(s) => error_s(s),
            CE::Timeout(_) => "NetworkTimeout".into(),
            CE::Io(_) => "Io".into(),
            CE::ConnectionRefused(_) => "ConnectionRefused".into(),
            CE::NotConnAck(_) => "NotConnAck".into(),
            CE::RequestsDone => "RequestsDone".into(),
        }
    }
}

/// the client under test: the v4 or the v5 AsyncClient + EventLoop
enum Lp {
    V4(AsyncClient, EventLoop),
    V5(rumqttc::v5::AsyncClient, rumqttc::v5::EventLoop),
}

/// one EventLoop::poll(), answered as text
/// a panic inside poll() (dev profile: arithmetic overflow, index out of range) is answered PANIC
async fn poll_s(lp: &mut Lp) -> Result<String, String> {
    use std::panic::AssertUnwindSafe;
    match lp {
        Lp::V4(_, el) => match AssertUnwindSafe(el.poll()).catch_unwind().await {
            Ok(r) => r.map(|e| event_s(&e)).map_err(|e| format!("ERROR {}", error_s(&e))),
            Err(_) => Err("PANIC".to_string()),
        },
        Lp::V5(_, el) => match AssertUnwindSafe(el.poll()).catch_unwind().await {
            Ok(r) => r.map(|e| t5::event_s(&e)).map_err(|e| format!("ERROR {}", t5::conn_error_s(&e))),
            Err(_) => Err("PANIC".to_string()),
        },
    }
}

/// the broker's end of the current connection
enum BNet {
    V4(Network),
    V5(rumqttc::verif::NetworkV5),
}

impl BNet {
    /// buffer the packets (each given as its tokens), then flush
    async fn write_all(&mut self, pk: &[Vec<String>]) {
        for p in pk {
            let t: Vec<&str> = p.iter().map(|x| x.as_str()).collect();
            match self {
                BNet::V4(n) => { let _ = n.write(broker_packet(&t)).await; }
                BNet::V5(n) => { let _ = n.write(t5::packet(&t)).await; }
            }
        }
        match self {
            BNet::V4(n) => { let _ = n.flush().await; }
            BNet::V5(n) => { let _ = n.flush().await; }
        }
    }
}

struct Broker {
    net: Option<BNet>,
}

impl Broker {
    /// everything the client has flushed so far
    fn received(&mut self) -> Vec<String> {
        let mut v = vec![];
        match self.net.as_mut() {
            Some(BNet::V4(n)) => loop {
                match n.read().now_or_never() {
                    Some(Ok(p)) => v.push(packet_s(&p)),
                    _ => break,
                }
            },
            Some(BNet::V5(n)) => loop {
                match n.read().now_or_never() {
                    Some(Ok(p)) => v.push(t5::packet_s(&p)),
                    _ => break,
                }
            },
            None => {}
        }
        v
    }
}

/// "a b ; c d" -> [[a, b], [c, d]]
fn packet_parts(rest: &str) -> Vec<Vec<String>> {
    rest.split(';')
        .filter_map(|part| {
            let pt: Vec<String> = part.split_whitespace().map(|x| x.to_string()).collect();
            if pt.is_empty() { None } else { Some(pt) }
        })
        .collect()
}

type Sched = Vec<(tokio::time::Instant, Vec<Vec<String>>)>;

async fn run() {
    let stdin = io::stdin();
    let mut out = BufWriter::new(io::stdout());
    let mut lp: Option<Lp> = None;
    let broker = Rc::new(RefCell::new(Broker { net: None }));
    // the client's end of the next connection, handed out by the connector
    let next_socket: Rc<RefCell<Option<DuplexStream>>> = Rc::new(RefCell::new(None));
    {
        let ns = next_socket.clone();
        set_connector(Some(Box::new(move || match ns.borrow_mut().take() {
            Some(s) => Ok(Box::new(s) as Box<dyn AsyncReadWrite>),
            None => Err(io::Error::new(io::ErrorKind::ConnectionRefused, "no broker")),
        })));
    }
    let mut sched: Sched = vec![];
    for line in stdin.lock().lines() {
        let line = line.unwrap();
        let t: Vec<&str> = line.split_whitespace().collect();
        if t.is_empty() {
            continue;
        }
        let ans = match t[0] {
            "NETAT" => {
                let at = tokio::time::Instant::now() + Duration::from_millis(t[1].parse().unwrap());
                let rest = line.splitn(3, ' ').nth(2).unwrap_or("");
                if broker.borrow().net.is_some() {
                    sched.push((at, packet_parts(rest)));
                }
                "OK".to_string()
            }
            "POLLT" => {
                let el = lp.as_mut().unwrap();
                let limit = tokio::time::Instant::now() + Duration::from_millis(t[1].parse().unwrap());
                sched.sort_by_key(|x| x.0);
                let todo: Sched = std::mem::take(&mut sched);
                let head = {
                    let mut b = broker.borrow_mut();
                    let mut pending_writes = todo.into_iter();
                    let left: RefCell<Sched> = RefCell::new(vec![]);
                    let writer = async {
                        // never completes: the broker's scheduled writes happen while poll() runs
                        while let Some((at, pk)) = pending_writes.next() {
                            left.borrow_mut().push((at, pk.clone()));
                            tokio::time::sleep_until(at).await;
                            left.borrow_mut().pop();
                            if let Some(n) = b.net.as_mut() {
                                n.write_all(&pk).await;
                            }
                        }
                        std::future::pending::<()>().await
                    };
                    let r = tokio::select! {
                        biased;
                        r = poll_s(el) => Some(r),
                        _ = writer => unreachable!(),
                        _ = tokio::time::sleep_until(limit) => None,
                    };
                    // writes not yet due stay scheduled
                    sched.extend(left.into_inner());
                    sched.extend(pending_writes);
                    match r {
                        None => "IDLE".to_string(),
                        Some(Ok(e)) => format!("EVENT {e}"),
                        Some(Err(e)) => e,
                    }
                };
                let w = broker.borrow_mut().received();
                format!("{} WIRE[{}]", head, w.join(" "))
            }
            "LNEW" => {
                let mut o = MqttOptions::new("verif", "localhost", 1883);
                o.set_inflight(num(t[1]));
                o.set_manual_acks(t[2] == "1");
                o.set_clean_session(false);
                o.set_keep_alive(Duration::from_secs(3600));
                o.set_pending_throttle(Duration::from_millis(if t.len() > 3 { t[3].parse().unwrap() } else { 0 }));
                sched.clear();
                let (c, el) = AsyncClient::new(o, 1000);
                lp = Some(Lp::V4(c, el));
                broker.borrow_mut().net = None;
                *next_socket.borrow_mut() = None;
                "NEW".to_string()
            }
            // the v5 client: max_inflight is the configured upper limit (outgoing_inflight_upper_limit)
            "LNEW5" => {
                let mut o = rumqttc::v5::MqttOptions::new("verif", "localhost", 1883);
                o.set_outgoing_inflight_upper_limit(num(t[1]));
                o.set_manual_acks(t[2] == "1");
                o.set_clean_start(false);
                o.set_keep_alive(Duration::from_secs(3600));
                o.set_pending_throttle(Duration::from_millis(if t.len() > 3 { t[3].parse().unwrap() } else { 0 }));
                sched.clear();
                let (c, el) = rumqttc::v5::AsyncClient::new(o, 1000);
                lp = Some(Lp::V5(c, el));
                broker.borrow_mut().net = None;
                *next_socket.borrow_mut() = None;
                "NEW".to_string()
            }
            "SEND" => {
                let r = match lp.as_ref().unwrap() {
                    Lp::V4(c, _) => match t[1] {
                        "PUB" => c.try_publish(format!("t{}", t[4]), qos(t[2]), false, t[5].as_bytes().to_vec()).is_ok(),
                        "SUB" => c.try_subscribe("f0", QoS::AtMostOnce).is_ok(),
                        "UNSUB" => c.try_unsubscribe("f0").is_ok(),
                        "DISCONNECT" => c.try_disconnect().is_ok(),
                        o => panic!("bad request {o}"),
                    },
                    Lp::V5(c, _) => match t[1] {
                        // SEND PUB <qos> <id> <topic> <payload> [<topic alias|->]   (the alias: v5 only)
                        "PUB" if t.len() > 6 && t[6] != "-" => c
                            .try_publish_with_properties(
                                format!("t{}", t[4]),
                                t5::qos(t[2]),
                                false,
                                t[5].as_bytes().to_vec(),
                                rumqttc::v5::mqttbytes::v5::PublishProperties { topic_alias: Some(num(t[6])), ..Default::default() },
                            )
                            .is_ok(),
                        "PUB" => c.try_publish(format!("t{}", t[4]), t5::qos(t[2]), false, t[5].as_bytes().to_vec()).is_ok(),
                        "SUB" => c.try_subscribe("f0", rumqttc::v5::mqttbytes::QoS::AtMostOnce).is_ok(),
                        "UNSUB" => c.try_unsubscribe("f0").is_ok(),
                        "DISCONNECT" => c.try_disconnect().is_ok(),
                        o => panic!("bad request {o}"),
                    },
                };
                if r { "OK".into() } else { "FULL".into() }
            }
            // ACCEPT <session_present> [<receive_maximum|-> [<topic_alias_maximum|->]]   (the properties: v5 only)
            "ACCEPT" => {
                let (client_end, broker_end) = tokio::io::duplex(1 << 20);
                *next_socket.borrow_mut() = Some(client_end);
                let net = match lp.as_ref().unwrap() {
                    Lp::V4(..) => {
                        let mut n = Network::new(broker_end, 1 << 20, 1 << 20);
                        n.write(Packet::ConnAck(ConnAck::new(ConnectReturnCode::Success, t[1] == "1"))).await.unwrap();
                        n.flush().await.unwrap();
                        BNet::V4(n)
                    }
                    Lp::V5(..) => {
                        let mut n = rumqttc::verif::NetworkV5::new(broker_end, Some(1 << 20));
                        let ca = ["CONNACK", t[1], "0", if t.len() > 2 { t[2] } else { "-" }, if t.len() > 3 { t[3] } else { "-" }];
                        n.write(t5::packet(&ca)).await.unwrap();
                        n.flush().await.unwrap();
                        BNet::V5(n)
                    }
                };
                broker.borrow_mut().net = Some(net);
                "OK".to_string()
            }
            "NET" => {
                let mut b = broker.borrow_mut();
                if let Some(n) = b.net.as_mut() {
                    n.write_all(&packet_parts(&line[3..])).await;
                }
                "OK".to_string()
            }
            "DROP" => {
                broker.borrow_mut().net = None;
                "OK".to_string()
            }
            "POLL" => {
                let el = lp.as_mut().unwrap();
                let r = tokio::time::timeout(Duration::from_millis(1), poll_s(el)).await;
                let head = match r {
                    Err(_) => "IDLE".to_string(),
                    Ok(Ok(e)) => format!("EVENT {e}"),
                    Ok(Err(e)) => e,
                };
                let w = broker.borrow_mut().received();
                format!("{} WIRE[{}]", head, w.join(" "))
            }
            "KA" => {
                let a = ka_args(&t);
                if t[1].starts_with('4') { ka4(a, &next_socket).await } else { ka5(a, &next_socket).await }
            }
            "BURST" => {
                let n: usize = t[2].parse().unwrap();
                if t[1] == "4" { burst4(n, t[3], &next_socket).await } else { burst5(n, t[3], &next_socket).await }
            }
            "KAR" => {
                let (ka, hz): (u64, u64) = (t[2].parse().unwrap(), t[4].parse().unwrap());
                if t[1] == "4" { kar4(ka, t[3], hz, &next_socket).await } else { kar5(ka, t[3], hz, &next_socket).await }
            }
            "KACONN" => {
                let h = if t[3] == "never" { None } else { Some(t[3].parse().unwrap()) };
                kaconn(t[1], t[2].parse().unwrap(), h, &next_socket).await
            }
            "FINISH" => {
                let l: Vec<String> = match lp.as_mut().unwrap() {
                    Lp::V4(_, el) => { el.clean(); el.pending.iter().map(request_s).collect() }
                    Lp::V5(_, el) => { el.clean(); el.pending.iter().map(t5::request_s).collect() }
                };
                format!("HELD [{}]", l.join(" "))
            }
            o => panic!("bad op {o}"),
        };
        writeln!(out, "{ans}").unwrap();
    }
    out.flush().unwrap();
}

fn main() {
    silence_panics();
    let rt = tokio::runtime::Builder::new_current_thread().enable_time().start_paused(true).build().unwrap();
    rt.block_on(run());
}
