//! End-to-end driver for M-LOOP: the real `rumqttc::EventLoop` (v4) over an in-memory transport
//! (`rumqttc::verif::set_connector`, a `tokio::io::duplex` pair) under paused tokio time, with a
//! scripted broker on the other end.  Everything after `network_connect` runs unmodified.
//!   LNEW <max_inflight> <manual_acks>     new AsyncClient + EventLoop (clean_session = false)
//!   SEND <request>                        AsyncClient::try_publish / try_subscribe / ... (channel)
//!   ACCEPT <session_present>              the broker will accept the next connection (CONNACK queued)
//!   NET <packet> [; <packet>]*            the broker writes these packets (read by a later POLL)
//!   DROP                                  the broker closes the connection
//!   POLL                                  one EventLoop::poll(), bounded by 1 ms of virtual time
//!   FINISH                                EventLoop::clean(), then print what the client still holds
//! Answers: OK | EVENT <event> WIRE[<packets the broker received>] | ERROR <kind> WIRE[..] | IDLE WIRE[..]
//!          | HELD [<requests>]
use futures_util::FutureExt;
use rumqttc::verif::{set_connector, AsyncReadWrite, Network};
use rumqttc::*;
use std::cell::RefCell;
use std::io::{self, BufRead, BufWriter, Write};
use std::rc::Rc;
use std::time::Duration;
use tokio::io::DuplexStream;
use verif_harness::*;

fn qos(s: &str) -> QoS {
    match s {
        "0" => QoS::AtMostOnce,
        "1" => QoS::AtLeastOnce,
        "2" => QoS::ExactlyOnce,
        _ => panic!("bad qos"),
    }
}
fn num(s: &str) -> u16 {
    s.parse().expect("number")
}
fn tag(s: &str) -> String {
    match s.strip_prefix('t') {
        Some(r) if r.parse::<u64>().is_ok() => r.to_string(),
        _ => format!("x{}", hex(s.as_bytes())),
    }
}
fn ptag(b: &[u8]) -> String {
    match std::str::from_utf8(b) {
        Ok(r) if r.parse::<u64>().is_ok() => r.to_string(),
        _ => format!("x{}", hex(b)),
    }
}
fn pub_s(p: &Publish) -> String {
    format!("PUB:{}:{}:{}:{}", p.qos as u8, p.pkid, tag(&p.topic), ptag(&p.payload))
}
fn packet_s(p: &Packet) -> String {
    match p {
        Packet::Connect(_) => "CONNECT".into(),
        Packet::ConnAck(c) => format!("CONNACK:{}:{}", c.session_present as u8, if c.code == ConnectReturnCode::Success { 0 } else { 5 }),
        Packet::Publish(p) => pub_s(p),
        Packet::PubAck(a) => format!("PUBACK:{}", a.pkid),
        Packet::PubRec(a) => format!("PUBREC:{}", a.pkid),
        Packet::PubRel(a) => format!("PUBREL:{}", a.pkid),
        Packet::PubComp(a) => format!("PUBCOMP:{}", a.pkid),
        Packet::Subscribe(s) => format!("SUB:{}:{}", s.pkid, s.filters.len()),
        Packet::SubAck(s) => format!("SUBACK:{}", s.pkid),
        Packet::Unsubscribe(s) => format!("UNSUB:{}:{}", s.pkid, s.topics.len()),
        Packet::UnsubAck(s) => format!("UNSUBACK:{}", s.pkid),
        Packet::PingReq => "PINGREQ".into(),
        Packet::PingResp => "PINGRESP".into(),
        Packet::Disconnect => "DISCONNECT".into(),
    }
}
fn request_s(r: &Request) -> String {
    match r {
        Request::Publish(p) => pub_s(p),
        Request::PubAck(a) => format!("PUBACK:{}", a.pkid),
        Request::PubRec(a) => format!("PUBREC:{}", a.pkid),
        Request::PubComp(a) => format!("PUBCOMP:{}", a.pkid),
        Request::PubRel(a) => format!("PUBREL:{}", a.pkid),
        Request::PingReq(_) => "PINGREQ".into(),
        Request::PingResp(_) => "PINGRESP".into(),
        Request::Subscribe(s) => format!("SUB:{}:{}", s.pkid, s.filters.len()),
        Request::SubAck(s) => format!("SUBACK:{}", s.pkid),
        Request::Unsubscribe(s) => format!("UNSUB:{}:{}", s.pkid, s.topics.len()),
        Request::UnsubAck(s) => format!("UNSUBACK:{}", s.pkid),
        Request::Disconnect(_) => "DISCONNECT".into(),
    }
}
fn event_s(e: &Event) -> String {
    match e {
        Event::Incoming(p) => format!("I({})", packet_s(p)),
        Event::Outgoing(o) => format!(
            "O({})",
            match o {
                Outgoing::Publish(i) => format!("PUB:{i}"),
                Outgoing::Subscribe(i) => format!("SUB:{i}"),
                Outgoing::Unsubscribe(i) => format!("UNSUB:{i}"),
                Outgoing::PubAck(i) => format!("PUBACK:{i}"),
                Outgoing::PubRec(i) => format!("PUBREC:{i}"),
                Outgoing::PubRel(i) => format!("PUBREL:{i}"),
                Outgoing::PubComp(i) => format!("PUBCOMP:{i}"),
                Outgoing::PingReq => "PINGREQ".into(),
                Outgoing::PingResp => "PINGRESP".into(),
                Outgoing::Disconnect => "DISCONNECT".into(),
                Outgoing::AwaitAck(i) => format!("AWAITACK:{i}"),
            }
        ),
    }
}
fn error_s(e: &ConnectionError) -> String {
    match e {
        ConnectionError::MqttState(s) => match s {
            StateError::Unsolicited(i) => format!("Unsolicited:{i}"),
            StateError::AwaitPingResp => "AwaitPingResp".into(),
            StateError::WrongPacket => "WrongPacket".into(),
            StateError::CollisionTimeout => "CollisionTimeout".into(),
            StateError::EmptySubscription => "EmptySubscription".into(),
            StateError::ConnectionAborted => "ConnectionAborted".into(),
            StateError::Io(_) => "Io".into(),
            StateError::Deserialization(_) => "Deserialization".into(),
            StateError::InvalidState => "InvalidState".into(),
        },
        ConnectionError::NetworkTimeout => "NetworkTimeout".into(),
        ConnectionError::FlushTimeout => "FlushTimeout".into(),
        ConnectionError::Io(_) => "Io".into(),
        ConnectionError::ConnectionRefused(_) => "ConnectionRefused".into(),
        ConnectionError::NotConnAck(_) => "NotConnAck".into(),
        ConnectionError::RequestsDone => "RequestsDone".into(),
    }
}
fn mk_pub(t: &[&str]) -> Publish {
    let mut p = Publish::new(format!("t{}", t[2]), qos(t[0]), t[3].as_bytes().to_vec());
    p.pkid = num(t[1]);
    p
}
fn broker_packet(t: &[&str]) -> Packet {
    match t[0] {
        "PUB" => Packet::Publish(mk_pub(&t[1..])),
        "PUBACK" => Packet::PubAck(PubAck::new(num(t[1]))),
        "PUBREC" => Packet::PubRec(PubRec::new(num(t[1]))),
        "PUBREL" => Packet::PubRel(PubRel::new(num(t[1]))),
        "PUBCOMP" => Packet::PubComp(PubComp::new(num(t[1]))),
        "SUBACK" => Packet::SubAck(SubAck::new(num(t[1]), vec![SubscribeReasonCode::Success(QoS::AtMostOnce)])),
        "UNSUBACK" => Packet::UnsubAck(UnsubAck::new(num(t[1]))),
        "PINGRESP" => Packet::PingResp,
        "PINGREQ" => Packet::PingReq,
        o => panic!("bad broker packet {o}"),
    }
}

struct Broker {
    net: Option<Network>,
}

impl Broker {
    /// everything the client has flushed so far
    fn received(&mut self) -> Vec<String> {
        let mut v = vec![];
        if let Some(n) = self.net.as_mut() {
            loop {
                match n.read().now_or_never() {
                    Some(Ok(p)) => v.push(packet_s(&p)),
                    Some(Err(_)) => break,
                    None => break,
                }
            }
        }
        v
    }
}

async fn run() {
    let stdin = io::stdin();
    let mut out = BufWriter::new(io::stdout());
    let mut lp: Option<(AsyncClient, EventLoop)> = None;
    let broker = Rc::new(RefCell::new(Broker { net: None }));
    // the client's end of the next connection, handed out by the connector
    let next_socket: Rc<RefCell<Option<DuplexStream>>> = Rc::new(RefCell::new(None));
    {
        let ns = next_socket.clone();
        set_connector(Some(Box::new(move || match ns.borrow_mut().take() {
            Some(s) => Ok(Box::new(s) as Box<dyn AsyncReadWrite>),
            None => Err(io::Error::new(io::ErrorKind::ConnectionRefused, "no broker")),
        })));
    }
    for line in stdin.lock().lines() {
        let line = line.unwrap();
        let t: Vec<&str> = line.split_whitespace().collect();
        if t.is_empty() {
            continue;
        }
        let ans = match t[0] {
            "LNEW" => {
                let mut o = MqttOptions::new("verif", "localhost", 1883);
                o.set_inflight(num(t[1]));
                o.set_manual_acks(t[2] == "1");
                o.set_clean_session(false);
                o.set_keep_alive(Duration::from_secs(3600));
                o.set_pending_throttle(Duration::ZERO);
                lp = Some(AsyncClient::new(o, 1000));
                broker.borrow_mut().net = None;
                *next_socket.borrow_mut() = None;
                "NEW".to_string()
            }
            "SEND" => {
                let (c, _) = lp.as_ref().unwrap();
                let r = match t[1] {
                    "PUB" => c.try_publish(format!("t{}", t[4]), qos(t[2]), false, t[5].as_bytes().to_vec()).is_ok(),
                    "SUB" => c.try_subscribe("f0", QoS::AtMostOnce).is_ok(),
                    "UNSUB" => c.try_unsubscribe("f0").is_ok(),
                    "DISCONNECT" => c.try_disconnect().is_ok(),
                    o => panic!("bad request {o}"),
                };
                if r { "OK".into() } else { "FULL".into() }
            }
            "ACCEPT" => {
                let (client_end, broker_end) = tokio::io::duplex(1 << 20);
                *next_socket.borrow_mut() = Some(client_end);
                let mut n = Network::new(broker_end, 1 << 20, 1 << 20);
                n.write(Packet::ConnAck(ConnAck::new(ConnectReturnCode::Success, t[1] == "1"))).await.unwrap();
                n.flush().await.unwrap();
                broker.borrow_mut().net = Some(n);
                "OK".to_string()
            }
            "NET" => {
                let mut b = broker.borrow_mut();
                if let Some(n) = b.net.as_mut() {
                    for part in line[3..].split(';') {
                        let pt: Vec<&str> = part.split_whitespace().collect();
                        if !pt.is_empty() {
                            let _ = n.write(broker_packet(&pt)).await;
                        }
                    }
                    let _ = n.flush().await;
                }
                "OK".to_string()
            }
            "DROP" => {
                broker.borrow_mut().net = None;
                "OK".to_string()
            }
            "POLL" => {
                let (_, el) = lp.as_mut().unwrap();
                let r = tokio::time::timeout(Duration::from_millis(1), el.poll()).await;
                let head = match r {
                    Err(_) => "IDLE".to_string(),
                    Ok(Ok(e)) => format!("EVENT {}", event_s(&e)),
                    Ok(Err(e)) => format!("ERROR {}", error_s(&e)),
                };
                let w = broker.borrow_mut().received();
                format!("{} WIRE[{}]", head, w.join(" "))
            }
            "FINISH" => {
                let (_, el) = lp.as_mut().unwrap();
                el.clean();
                let l: Vec<String> = el.pending.iter().map(request_s).collect();
                format!("HELD [{}]", l.join(" "))
            }
            o => panic!("bad op {o}"),
        };
        writeln!(out, "{ans}").unwrap();
    }
    out.flush().unwrap();
}

fn main() {
    silence_panics();
    let rt = tokio::runtime::Builder::new_current_thread().enable_time().start_paused(true).build().unwrap();
    rt.block_on(run());
}
