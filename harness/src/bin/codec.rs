//! Correspondence driver for M-CODEC (MQTT 3.1.1): runs the real encoders / decoders of both
//! crates and the real streaming glue on the ops read from stdin, one answer line per op.
//!   ENC 4 <C|B> <max> <canonical-packet>  -> OK <bytes> <ret> <size|-> | ERR <kind> | PANIC
//!   DEC 4 <C|B> <max> <bytes>             -> PKT <canonical-packet> <consumed> | MAL <kind> <consumed> | MORE <k> | PANIC
//!   STREAM 4 <C|B> <max> <chunk>+         -> (PKT <canonical-packet> " | ")* (MAL <kind> | PANIC | END clean | END partial)
//!        C: rumqttc::verif::Network (tokio_util Framed<duplex, Codec>) ::read
//!        B: rumqttd::verif::Network<V4> over tokio::io::duplex, read() then readv(), as RemoteLink does
//!   UTF8 <bytes>                          -> T | F     (String::from_utf8)
//!   WF .. / NORM ..                       -> "-"       (model-only ops)
//! C = rumqttc::mqttbytes::v4::Packet::{read,write,size};  B = rumqttd::protocol::v4::V4::{read_mut,write}.
//! The canonical packet (enum Canon) mirrors coq/Codec/V4.v `packet`; the conversions below are
//! field-by-field copies (trusted base).
use bytes::{Bytes, BytesMut};
use std::cell::RefCell;
use std::collections::VecDeque;
use std::future::Future;
use std::io::{self, BufRead, BufWriter, Write};
use std::panic::{catch_unwind, AssertUnwindSafe};
use std::rc::Rc;
use std::task::Poll;
use verif_harness::*;

use rumqttc::mqttbytes as c;
use rumqttc::mqttbytes::v4 as c4;
use rumqttd::protocol as b;
use rumqttd::protocol::Protocol as _;

#[path = "codec/v5.rs"]
mod v5;

// ------------------------------------------------------------------ canonical packet

#[derive(Clone, Debug, PartialEq)]
struct Will {
    topic: Vec<u8>,
    message: Vec<u8>,
    qos: u8,
    retain: bool,
}

#[derive(Clone, Debug, PartialEq)]
enum Rc_ {
    Success(u8),
    Failure,
    QoS(u8),
    Unspecified,
    Other(u8),
}

#[derive(Clone, Debug, PartialEq)]
enum Canon {
    Connect {
        proto: u8,
        ka: u16,
        id: Vec<u8>,
        clean: bool,
        will: Option<Will>,
        login: Option<(Vec<u8>, Vec<u8>)>,
    },
    ConnAck { sp: bool, code: u8 },
    Publish { dup: bool, qos: u8, retain: bool, topic: Vec<u8>, pkid: u16, payload: Vec<u8> },
    PubAck { pkid: u16, reason: u8 },
    PubRec { pkid: u16, reason: u8 },
    PubRel { pkid: u16, reason: u8 },
    PubComp { pkid: u16, reason: u8 },
    Subscribe { pkid: u16, filters: Vec<(Vec<u8>, u8, u8)> },
    SubAck { pkid: u16, codes: Vec<Rc_> },
    Unsubscribe { pkid: u16, topics: Vec<Vec<u8>> },
    UnsubAck { pkid: u16, reasons: Vec<u8> },
    PingReq,
    PingResp,
    Disconnect { reason: u8 },
}

fn kv<'a>(tok: &'a str, key: &str) -> &'a str {
    let p = format!("{key}=");
    tok.strip_prefix(p.as_str()).unwrap_or_else(|| panic!("expected {key}= in {tok}"))
}
fn num<T: std::str::FromStr>(s: &str) -> T
where
    T::Err: std::fmt::Debug,
{
    s.parse().unwrap()
}
fn bit(s: &str) -> bool {
    s == "1"
}
fn list<T>(s: &str, f: impl Fn(&str) -> T) -> Vec<T> {
    if s == "none" {
        vec![]
    } else {
        s.split(',').map(f).collect()
    }
}
fn show_list<T>(l: &[T], f: impl Fn(&T) -> String) -> String {
    if l.is_empty() {
        "none".into()
    } else {
        l.iter().map(f).collect::<Vec<_>>().join(",")
    }
}

fn parse_canon(t: &[&str]) -> Canon {
    match t[0] {
        "CONNECT" => {
            let will = match kv(t[5], "will") {
                "none" => None,
                s => {
                    let p: Vec<&str> = s.split(':').collect();
                    Some(Will { topic: unhex(p[0]), message: unhex(p[1]), qos: num(p[2]), retain: bit(p[3]) })
                }
            };
            let login = match kv(t[6], "login") {
                "none" => None,
                s => {
                    let p: Vec<&str> = s.split(':').collect();
                    Some((unhex(p[0]), unhex(p[1])))
                }
            };
            Canon::Connect {
                proto: num(kv(t[1], "proto")),
                ka: num(kv(t[2], "ka")),
                id: unhex(kv(t[3], "id")),
                clean: bit(kv(t[4], "clean")),
                will,
                login,
            }
        }
        "CONNACK" => Canon::ConnAck { sp: bit(kv(t[1], "sp")), code: num(kv(t[2], "code")) },
        "PUBLISH" => Canon::Publish {
            dup: bit(kv(t[1], "dup")),
            qos: num(kv(t[2], "qos")),
            retain: bit(kv(t[3], "retain")),
            topic: unhex(kv(t[4], "topic")),
            pkid: num(kv(t[5], "pkid")),
            payload: unhex(kv(t[6], "payload")),
        },
        "PUBACK" => Canon::PubAck { pkid: num(kv(t[1], "pkid")), reason: num(kv(t[2], "reason")) },
        "PUBREC" => Canon::PubRec { pkid: num(kv(t[1], "pkid")), reason: num(kv(t[2], "reason")) },
        "PUBREL" => Canon::PubRel { pkid: num(kv(t[1], "pkid")), reason: num(kv(t[2], "reason")) },
        "PUBCOMP" => Canon::PubComp { pkid: num(kv(t[1], "pkid")), reason: num(kv(t[2], "reason")) },
        "SUBSCRIBE" => Canon::Subscribe {
            pkid: num(kv(t[1], "pkid")),
            filters: list(kv(t[2], "filters"), |s| {
                let p: Vec<&str> = s.split(':').collect();
                (unhex(p[0]), num(p[1]), num(p[2]))
            }),
        },
        "SUBACK" => Canon::SubAck {
            pkid: num(kv(t[1], "pkid")),
            codes: list(kv(t[2], "codes"), |s| match s {
                "S0" => Rc_::Success(0),
                "S1" => Rc_::Success(1),
                "S2" => Rc_::Success(2),
                "F" => Rc_::Failure,
                "Q0" => Rc_::QoS(0),
                "Q1" => Rc_::QoS(1),
                "Q2" => Rc_::QoS(2),
                "U" => Rc_::Unspecified,
                o => Rc_::Other(num(o.strip_prefix('O').expect("bad return code"))),
            }),
        },
        "UNSUBSCRIBE" => Canon::Unsubscribe { pkid: num(kv(t[1], "pkid")), topics: list(kv(t[2], "topics"), unhex) },
        "UNSUBACK" => Canon::UnsubAck { pkid: num(kv(t[1], "pkid")), reasons: list(kv(t[2], "reasons"), |s| num(s)) },
        "PINGREQ" => Canon::PingReq,
        "PINGRESP" => Canon::PingResp,
        "DISCONNECT" => Canon::Disconnect { reason: num(kv(t[1], "reason")) },
        other => panic!("bad packet {other}"),
    }
}

fn b01(x: bool) -> u8 {
    x as u8
}

fn show_canon(p: &Canon) -> String {
    match p {
        Canon::Connect { proto, ka, id, clean, will, login } => format!(
            "CONNECT proto={} ka={} id={} clean={} will={} login={}",
            proto,
            ka,
            hex(id),
            b01(*clean),
            match will {
                None => "none".to_string(),
                Some(w) => format!("{}:{}:{}:{}", hex(&w.topic), hex(&w.message), w.qos, b01(w.retain)),
            },
            match login {
                None => "none".to_string(),
                Some((u, p)) => format!("{}:{}", hex(u), hex(p)),
            }
        ),
        Canon::ConnAck { sp, code } => format!("CONNACK sp={} code={}", b01(*sp), code),
        Canon::Publish { dup, qos, retain, topic, pkid, payload } => format!(
            "PUBLISH dup={} qos={} retain={} topic={} pkid={} payload={}",
            b01(*dup),
            qos,
            b01(*retain),
            hex(topic),
            pkid,
            hex(payload)
        ),
        Canon::PubAck { pkid, reason } => format!("PUBACK pkid={pkid} reason={reason}"),
        Canon::PubRec { pkid, reason } => format!("PUBREC pkid={pkid} reason={reason}"),
        Canon::PubRel { pkid, reason } => format!("PUBREL pkid={pkid} reason={reason}"),
        Canon::PubComp { pkid, reason } => format!("PUBCOMP pkid={pkid} reason={reason}"),
        Canon::Subscribe { pkid, filters } => format!(
            "SUBSCRIBE pkid={} filters={}",
            pkid,
            show_list(filters, |(p, q, o)| format!("{}:{}:{}", hex(p), q, o))
        ),
        Canon::SubAck { pkid, codes } => format!(
            "SUBACK pkid={} codes={}",
            pkid,
            show_list(codes, |c| match c {
                Rc_::Success(q) => format!("S{q}"),
                Rc_::Failure => "F".into(),
                Rc_::QoS(q) => format!("Q{q}"),
                Rc_::Unspecified => "U".into(),
                Rc_::Other(b) => format!("O{b}"),
            })
        ),
        Canon::Unsubscribe { pkid, topics } => format!("UNSUBSCRIBE pkid={} topics={}", pkid, show_list(topics, |t| hex(t))),
        Canon::UnsubAck { pkid, reasons } => format!("UNSUBACK pkid={} reasons={}", pkid, show_list(reasons, |r| r.to_string())),
        Canon::PingReq => "PINGREQ".into(),
        Canon::PingResp => "PINGRESP".into(),
        Canon::Disconnect { reason } => format!("DISCONNECT reason={reason}"),
    }
}

struct Unrep;
fn s(v: &[u8]) -> Result<String, Unrep> {
    String::from_utf8(v.to_vec()).map_err(|_| Unrep)
}

// ------------------------------------------------------------------ client <-> canonical

fn c_qos(q: u8) -> c::QoS {
    match q {
        0 => c::QoS::AtMostOnce,
        1 => c::QoS::AtLeastOnce,
        2 => c::QoS::ExactlyOnce,
        _ => panic!("bad qos in op"),
    }
}

const C_CODES: [c4::ConnectReturnCode; 6] = [
    c4::ConnectReturnCode::Success,
    c4::ConnectReturnCode::RefusedProtocolVersion,
    c4::ConnectReturnCode::BadClientId,
    c4::ConnectReturnCode::ServiceUnavailable,
    c4::ConnectReturnCode::BadUserNamePassword,
    c4::ConnectReturnCode::NotAuthorized,
];

fn to_client(p: &Canon) -> Result<c4::Packet, Unrep> {
    Ok(match p {
        Canon::Connect { proto, ka, id, clean, will, login } => c4::Packet::Connect(c4::Connect {
            protocol: match proto {
                4 => c::Protocol::V4,
                5 => c::Protocol::V5,
                _ => return Err(Unrep),
            },
            keep_alive: *ka,
            client_id: s(id)?,
            clean_session: *clean,
            last_will: match will {
                None => None,
                Some(w) => Some(c4::LastWill {
                    topic: s(&w.topic)?,
                    message: Bytes::from(w.message.clone()),
                    qos: c_qos(w.qos),
                    retain: w.retain,
                }),
            },
            login: match login {
                None => None,
                Some((u, p)) => Some(c4::Login { username: s(u)?, password: s(p)? }),
            },
        }),
        Canon::ConnAck { sp, code } => c4::Packet::ConnAck(c4::ConnAck {
            session_present: *sp,
            code: *C_CODES.get(*code as usize).ok_or(Unrep)?,
        }),
        Canon::Publish { dup, qos, retain, topic, pkid, payload } => c4::Packet::Publish(c4::Publish {
            dup: *dup,
            qos: c_qos(*qos),
            retain: *retain,
            topic: s(topic)?,
            pkid: *pkid,
            payload: Bytes::from(payload.clone()),
        }),
        Canon::PubAck { pkid, reason: 0 } => c4::Packet::PubAck(c4::PubAck { pkid: *pkid }),
        Canon::PubRec { pkid, reason: 0 } => c4::Packet::PubRec(c4::PubRec { pkid: *pkid }),
        Canon::PubRel { pkid, reason: 0 } => c4::Packet::PubRel(c4::PubRel { pkid: *pkid }),
        Canon::PubComp { pkid, reason: 0 } => c4::Packet::PubComp(c4::PubComp { pkid: *pkid }),
        Canon::Subscribe { pkid, filters } => {
            let mut fs = vec![];
            for (path, q, opts) in filters {
                if *opts != 0 {
                    return Err(Unrep);
                }
                fs.push(c4::SubscribeFilter { path: s(path)?, qos: c_qos(*q) });
            }
            c4::Packet::Subscribe(c4::Subscribe { pkid: *pkid, filters: fs })
        }
        Canon::SubAck { pkid, codes } => {
            let mut cs = vec![];
            for code in codes {
                cs.push(match code {
                    Rc_::Success(q) => c4::SubscribeReasonCode::Success(c_qos(*q)),
                    Rc_::Failure => c4::SubscribeReasonCode::Failure,
                    _ => return Err(Unrep),
                });
            }
            c4::Packet::SubAck(c4::SubAck { pkid: *pkid, return_codes: cs })
        }
        Canon::Unsubscribe { pkid, topics } => {
            let mut ts = vec![];
            for t in topics {
                ts.push(s(t)?);
            }
            c4::Packet::Unsubscribe(c4::Unsubscribe { pkid: *pkid, topics: ts })
        }
        Canon::UnsubAck { pkid, reasons } if reasons.is_empty() => c4::Packet::UnsubAck(c4::UnsubAck { pkid: *pkid }),
        Canon::PingReq => c4::Packet::PingReq,
        Canon::PingResp => c4::Packet::PingResp,
        Canon::Disconnect { reason: 0 } => c4::Packet::Disconnect,
        _ => return Err(Unrep),
    })
}

fn from_client(p: c4::Packet) -> Canon {
    match p {
        c4::Packet::Connect(x) => Canon::Connect {
            proto: match x.protocol {
                c::Protocol::V4 => 4,
                c::Protocol::V5 => 5,
            },
            ka: x.keep_alive,
            id: x.client_id.into_bytes(),
            clean: x.clean_session,
            will: x.last_will.map(|w| Will { topic: w.topic.into_bytes(), message: w.message.to_vec(), qos: w.qos as u8, retain: w.retain }),
            login: x.login.map(|l| (l.username.into_bytes(), l.password.into_bytes())),
        },
        c4::Packet::ConnAck(x) => Canon::ConnAck { sp: x.session_present, code: C_CODES.iter().position(|k| *k == x.code).unwrap() as u8 },
        c4::Packet::Publish(x) => Canon::Publish {
            dup: x.dup,
            qos: x.qos as u8,
            retain: x.retain,
            topic: x.topic.into_bytes(),
            pkid: x.pkid,
            payload: x.payload.to_vec(),
        },
        c4::Packet::PubAck(x) => Canon::PubAck { pkid: x.pkid, reason: 0 },
        c4::Packet::PubRec(x) => Canon::PubRec { pkid: x.pkid, reason: 0 },
        c4::Packet::PubRel(x) => Canon::PubRel { pkid: x.pkid, reason: 0 },
        c4::Packet::PubComp(x) => Canon::PubComp { pkid: x.pkid, reason: 0 },
        c4::Packet::Subscribe(x) => Canon::Subscribe {
            pkid: x.pkid,
            filters: x.filters.into_iter().map(|f| (f.path.into_bytes(), f.qos as u8, 0)).collect(),
        },
        c4::Packet::SubAck(x) => Canon::SubAck {
            pkid: x.pkid,
            codes: x
                .return_codes
                .into_iter()
                .map(|k| match k {
                    c4::SubscribeReasonCode::Success(q) => Rc_::Success(q as u8),
                    c4::SubscribeReasonCode::Failure => Rc_::Failure,
                })
                .collect(),
        },
        c4::Packet::Unsubscribe(x) => Canon::Unsubscribe { pkid: x.pkid, topics: x.topics.into_iter().map(|t| t.into_bytes()).collect() },
        c4::Packet::UnsubAck(x) => Canon::UnsubAck { pkid: x.pkid, reasons: vec![] },
        c4::Packet::PingReq => Canon::PingReq,
        c4::Packet::PingResp => Canon::PingResp,
        c4::Packet::Disconnect => Canon::Disconnect { reason: 0 },
    }
}

// ------------------------------------------------------------------ broker <-> canonical

fn b_qos(q: u8) -> b::QoS {
    match q {
        0 => b::QoS::AtMostOnce,
        1 => b::QoS::AtLeastOnce,
        2 => b::QoS::ExactlyOnce,
        _ => panic!("bad qos in op"),
    }
}

use b::ConnectReturnCode as BC;
const B_CODES: [BC; 24] = [
    BC::Success,
    BC::RefusedProtocolVersion,
    BC::ClientIdentifierNotValid,
    BC::ServiceUnavailable,
    BC::BadUserNamePassword,
    BC::NotAuthorized,
    BC::UnspecifiedError,
    BC::MalformedPacket,
    BC::ProtocolError,
    BC::ImplementationSpecificError,
    BC::UnsupportedProtocolVersion,
    BC::ServerUnavailable,
    BC::ServerBusy,
    BC::Banned,
    BC::BadAuthenticationMethod,
    BC::TopicNameInvalid,
    BC::PacketTooLarge,
    BC::QuotaExceeded,
    BC::PayloadFormatInvalid,
    BC::RetainNotSupported,
    BC::QoSNotSupported,
    BC::UseAnotherServer,
    BC::ServerMoved,
    BC::ConnectionRateExceeded,
];
use b::PubAckReason as PA;
const B_PUBACK: [PA; 9] = [
    PA::Success,
    PA::NoMatchingSubscribers,
    PA::UnspecifiedError,
    PA::ImplementationSpecificError,
    PA::NotAuthorized,
    PA::TopicNameInvalid,
    PA::PacketIdentifierInUse,
    PA::QuotaExceeded,
    PA::PayloadFormatInvalid,
];
use b::PubRecReason as PR;
const B_PUBREC: [PR; 9] = [
    PR::Success,
    PR::NoMatchingSubscribers,
    PR::UnspecifiedError,
    PR::ImplementationSpecificError,
    PR::NotAuthorized,
    PR::TopicNameInvalid,
    PR::PacketIdentifierInUse,
    PR::QuotaExceeded,
    PR::PayloadFormatInvalid,
];
const B_PUBREL: [b::PubRelReason; 2] = [b::PubRelReason::Success, b::PubRelReason::PacketIdentifierNotFound];
const B_PUBCOMP: [b::PubCompReason; 2] = [b::PubCompReason::Success, b::PubCompReason::PacketIdentifierNotFound];
use b::UnsubAckReason as UA;
const B_UNSUB: [UA; 7] = [
    UA::Success,
    UA::NoSubscriptionExisted,
    UA::UnspecifiedError,
    UA::ImplementationSpecificError,
    UA::NotAuthorized,
    UA::TopicFilterInvalid,
    UA::PacketIdentifierInUse,
];
use b::DisconnectReasonCode as DR;
const B_DISC: [DR; 29] = [
    DR::NormalDisconnection,
    DR::DisconnectWithWillMessage,
    DR::UnspecifiedError,
    DR::MalformedPacket,
    DR::ProtocolError,
    DR::ImplementationSpecificError,
    DR::NotAuthorized,
    DR::ServerBusy,
    DR::ServerShuttingDown,
    DR::KeepAliveTimeout,
    DR::SessionTakenOver,
    DR::TopicFilterInvalid,
    DR::TopicNameInvalid,
    DR::ReceiveMaximumExceeded,
    DR::TopicAliasInvalid,
    DR::PacketTooLarge,
    DR::MessageRateTooHigh,
    DR::QuotaExceeded,
    DR::AdministrativeAction,
    DR::PayloadFormatInvalid,
    DR::RetainNotSupported,
    DR::QoSNotSupported,
    DR::UseAnotherServer,
    DR::ServerMoved,
    DR::SharedSubscriptionNotSupported,
    DR::ConnectionRateExceeded,
    DR::MaximumConnectTime,
    DR::SubscriptionIdentifiersNotSupported,
    DR::WildcardSubscriptionsNotSupported,
];
use b::SubscribeReasonCode as SR;
const B_OTHER: [(u8, SR); 8] = [
    (131, SR::ImplementationSpecific),
    (135, SR::NotAuthorized),
    (143, SR::TopicFilterInvalid),
    (145, SR::PkidInUse),
    (151, SR::QuotaExceeded),
    (158, SR::SharedSubscriptionsNotSupported),
    (161, SR::SubscriptionIdNotSupported),
    (162, SR::WildcardSubscriptionsNotSupported),
];
const B_RULES: [b::RetainForwardRule; 3] =
    [b::RetainForwardRule::OnEverySubscribe, b::RetainForwardRule::OnNewSubscribe, b::RetainForwardRule::Never];

fn idx<T: Copy>(t: &[T], i: u8) -> Result<T, Unrep> {
    t.get(i as usize).copied().ok_or(Unrep)
}
fn pos<T: PartialEq>(t: &[T], x: &T) -> u8 {
    t.iter().position(|k| k == x).unwrap() as u8
}

/// protocol::Publish has crate-private dup/qos/pkid: they are set through the public
/// `Publish::deserialize` (header byte, pkid, empty topic), the public fields are then assigned.
fn b_publish(dup: bool, qos: u8, retain: bool, topic: &[u8], pkid: u16, payload: &[u8]) -> b::Publish {
    let hdr = 0x30 | (retain as u8) | (qos << 1) | ((dup as u8) << 3);
    let raw = vec![hdr, (pkid >> 8) as u8, (pkid & 0xff) as u8, 0, 0];
    let mut p = b::Publish::deserialize(Bytes::from(raw));
    p.retain = retain;
    p.topic = Bytes::from(topic.to_vec());
    p.payload = Bytes::from(payload.to_vec());
    p
}

/// ... and read back through the public `Publish::serialize` (header byte, pkid).
fn b_publish_fields(p: &b::Publish) -> (bool, u8, u16) {
    let mut q = p.clone();
    q.topic = Bytes::new();
    q.payload = Bytes::new();
    let raw = q.serialize();
    ((raw[0] & 0b1000) != 0, (raw[0] & 0b0110) >> 1, ((raw[1] as u16) << 8) | raw[2] as u16)
}

fn to_broker(p: &Canon) -> Result<b::Packet, Unrep> {
    Ok(match p {
        Canon::Connect { proto, ka, id, clean, will, login } => {
            if *proto != 4 {
                return Err(Unrep);
            }
            b::Packet::Connect(
                b::Connect { keep_alive: *ka, client_id: s(id)?, clean_session: *clean },
                None,
                will.as_ref().map(|w| b::LastWill {
                    topic: Bytes::from(w.topic.clone()),
                    message: Bytes::from(w.message.clone()),
                    qos: b_qos(w.qos),
                    retain: w.retain,
                }),
                None,
                match login {
                    None => None,
                    Some((u, p)) => Some(b::Login { username: s(u)?, password: s(p)? }),
                },
            )
        }
        Canon::ConnAck { sp, code } => b::Packet::ConnAck(b::ConnAck { session_present: *sp, code: idx(&B_CODES, *code)? }, None),
        Canon::Publish { dup, qos, retain, topic, pkid, payload } => {
            b::Packet::Publish(b_publish(*dup, *qos, *retain, topic, *pkid, payload), None)
        }
        Canon::PubAck { pkid, reason } => b::Packet::PubAck(b::PubAck { pkid: *pkid, reason: idx(&B_PUBACK, *reason)? }, None),
        Canon::PubRec { pkid, reason } => b::Packet::PubRec(b::PubRec { pkid: *pkid, reason: idx(&B_PUBREC, *reason)? }, None),
        Canon::PubRel { pkid, reason } => b::Packet::PubRel(b::PubRel { pkid: *pkid, reason: idx(&B_PUBREL, *reason)? }, None),
        Canon::PubComp { pkid, reason } => b::Packet::PubComp(b::PubComp { pkid: *pkid, reason: idx(&B_PUBCOMP, *reason)? }, None),
        Canon::Subscribe { pkid, filters } => {
            let mut fs = vec![];
            for (path, q, opts) in filters {
                if *opts >= 12 {
                    return Err(Unrep);
                }
                fs.push(b::Filter {
                    path: s(path)?,
                    qos: b_qos(*q),
                    nolocal: opts & 1 != 0,
                    preserve_retain: opts & 2 != 0,
                    retain_forward_rule: B_RULES[(opts >> 2) as usize].clone(),
                });
            }
            b::Packet::Subscribe(b::Subscribe { pkid: *pkid, filters: fs }, None)
        }
        Canon::SubAck { pkid, codes } => {
            let mut cs = vec![];
            for code in codes {
                cs.push(match code {
                    Rc_::Success(q) => SR::Success(b_qos(*q)),
                    Rc_::Failure => SR::Failure,
                    Rc_::QoS(0) => SR::QoS0,
                    Rc_::QoS(1) => SR::QoS1,
                    Rc_::QoS(_) => SR::QoS2,
                    Rc_::Unspecified => SR::Unspecified,
                    Rc_::Other(x) => B_OTHER.iter().find(|(k, _)| k == x).ok_or(Unrep)?.1,
                });
            }
            b::Packet::SubAck(b::SubAck { pkid: *pkid, return_codes: cs }, None)
        }
        Canon::Unsubscribe { pkid, topics } => {
            let mut ts = vec![];
            for t in topics {
                ts.push(s(t)?);
            }
            b::Packet::Unsubscribe(b::Unsubscribe { pkid: *pkid, filters: ts }, None)
        }
        Canon::UnsubAck { pkid, reasons } => {
            let mut rs = vec![];
            for r in reasons {
                rs.push(idx(&B_UNSUB, *r)?);
            }
            b::Packet::UnsubAck(b::UnsubAck { pkid: *pkid, reasons: rs }, None)
        }
        Canon::PingReq => b::Packet::PingReq(b::PingReq),
        Canon::PingResp => b::Packet::PingResp(b::PingResp),
        Canon::Disconnect { reason } => b::Packet::Disconnect(b::Disconnect { reason_code: idx(&B_DISC, *reason)? }, None),
    })
}

/// v4 decoders never produce properties; a `Some` here would be a finding of its own.
fn from_broker(p: b::Packet) -> Canon {
    match p {
        b::Packet::Connect(x, None, will, None, login) => Canon::Connect {
            proto: 4,
            ka: x.keep_alive,
            id: x.client_id.into_bytes(),
            clean: x.clean_session,
            will: will.map(|w| Will { topic: w.topic.to_vec(), message: w.message.to_vec(), qos: w.qos as u8, retain: w.retain }),
            login: login.map(|l| (l.username.into_bytes(), l.password.into_bytes())),
        },
        b::Packet::ConnAck(x, None) => Canon::ConnAck { sp: x.session_present, code: pos(&B_CODES, &x.code) },
        b::Packet::Publish(x, None) => {
            let (dup, qos, pkid) = b_publish_fields(&x);
            Canon::Publish { dup, qos, retain: x.retain, topic: x.topic.to_vec(), pkid, payload: x.payload.to_vec() }
        }
        b::Packet::PubAck(x, None) => Canon::PubAck { pkid: x.pkid, reason: pos(&B_PUBACK, &x.reason) },
        b::Packet::PubRec(x, None) => Canon::PubRec { pkid: x.pkid, reason: pos(&B_PUBREC, &x.reason) },
        b::Packet::PubRel(x, None) => Canon::PubRel { pkid: x.pkid, reason: pos(&B_PUBREL, &x.reason) },
        b::Packet::PubComp(x, None) => Canon::PubComp { pkid: x.pkid, reason: pos(&B_PUBCOMP, &x.reason) },
        b::Packet::Subscribe(x, None) => Canon::Subscribe {
            pkid: x.pkid,
            filters: x
                .filters
                .into_iter()
                .map(|f| {
                    let o = (f.nolocal as u8) | ((f.preserve_retain as u8) << 1) | (pos(&B_RULES, &f.retain_forward_rule) << 2);
                    (f.path.into_bytes(), f.qos as u8, o)
                })
                .collect(),
        },
        b::Packet::SubAck(x, None) => Canon::SubAck {
            pkid: x.pkid,
            codes: x
                .return_codes
                .into_iter()
                .map(|k| match k {
                    SR::Success(q) => Rc_::Success(q as u8),
                    SR::Failure => Rc_::Failure,
                    SR::QoS0 => Rc_::QoS(0),
                    SR::QoS1 => Rc_::QoS(1),
                    SR::QoS2 => Rc_::QoS(2),
                    SR::Unspecified => Rc_::Unspecified,
                    o => Rc_::Other(B_OTHER.iter().find(|(_, v)| *v == o).unwrap().0),
                })
                .collect(),
        },
        b::Packet::Unsubscribe(x, None) => Canon::Unsubscribe { pkid: x.pkid, topics: x.filters.into_iter().map(|t| t.into_bytes()).collect() },
        b::Packet::UnsubAck(x, None) => Canon::UnsubAck { pkid: x.pkid, reasons: x.reasons.iter().map(|r| pos(&B_UNSUB, r)).collect() },
        b::Packet::PingReq(_) => Canon::PingReq,
        b::Packet::PingResp(_) => Canon::PingResp,
        b::Packet::Disconnect(x, None) => Canon::Disconnect { reason: pos(&B_DISC, &x.reason_code) },
        other => panic!("v4 decoder produced properties: {other:?}"),
    }
}

// ------------------------------------------------------------------ error kinds

/// kind = the constructor name (Debug output up to the first non-identifier character)
fn kind_of_debug(d: &str) -> String {
    d.chars().take_while(|c| c.is_ascii_alphanumeric()).collect()
}
fn c_kind(e: &c::Error) -> String {
    kind_of_debug(&format!("{e:?}"))
}
fn b_kind(e: &b::Error) -> String {
    kind_of_debug(&format!("{e:?}"))
}

/// `Network::readv` flattens protocol errors into io::Error(InvalidData, e.to_string()); the kind
/// is recovered by comparing the message with the Display of every variant (built with the
/// first integer found in the message).  "Invalid reason = N" is the message of both
/// InvalidRemainingLength and InvalidReason; only the former is produced by a v4 decoder.
fn b_kind_of_msg(msg: &str) -> String {
    let digits: String = msg.chars().skip_while(|c| !c.is_ascii_digit()).take_while(|c| c.is_ascii_digit()).collect();
    let n: usize = digits.parse().unwrap_or(0);
    let n8 = n as u8;
    use b::Error as E;
    let cands = [
        E::InvalidRemainingLength(n),
        E::InvalidConnectReturnCode(n8),
        E::InvalidReason(n8),
        E::InvalidProtocol,
        E::InvalidProtocolLevel(n8),
        E::IncorrectPacketFormat,
        E::InvalidPacketType(n8),
        E::InvalidRetainForwardRule(n8),
        E::InvalidQoS(n8),
        E::InvalidSubscribeReasonCode(n8),
        E::PacketIdZero,
        E::EmptySubscription,
        E::SubscriptionIdZero,
        E::PayloadSizeIncorrect,
        E::PayloadTooLong,
        E::PayloadSizeLimitExceeded(n),
        E::PayloadRequired,
        E::TopicNotUtf8,
        E::BoundaryCrossed(n),
        E::MalformedPacket,
        E::MalformedRemainingLength,
        E::InvalidPropertyType(n8),
        E::InsufficientBytes(n),
    ];
    for k in cands.iter() {
        if k.to_string() == msg {
            return b_kind(k);
        }
    }
    if msg.starts_with("Payload is required = ") {
        return "PayloadNotUtf8".into();
    }
    format!("UnknownMessage[{}]", msg.replace(' ', "_"))
}

// ------------------------------------------------------------------ ops

fn enc(fl: &str, max: usize, p: &Canon) -> String {
    match fl {
        "C" => {
            let Ok(pkt) = to_client(p) else { return "ERR Unrepresentable".into() };
            let r = catch_unwind(AssertUnwindSafe(|| {
                let mut buf = BytesMut::new();
                let size = pkt.size();
                pkt.write(&mut buf, max).map(|ret| (buf, ret, size))
            }));
            match r {
                Err(_) => "PANIC".into(),
                Ok(Err(e)) => format!("ERR {}", c_kind(&e)),
                Ok(Ok((buf, ret, size))) => format!("OK {} {} {}", hex(&buf), ret, size),
            }
        }
        "B" => {
            let Ok(pkt) = to_broker(p) else { return "ERR Unrepresentable".into() };
            let r = catch_unwind(AssertUnwindSafe(|| {
                let mut buf = BytesMut::new();
                b::v4::V4.write(pkt, &mut buf).map(|ret| (buf, ret))
            }));
            match r {
                Err(_) => "PANIC".into(),
                Ok(Err(e)) => format!("ERR {}", b_kind(&e)),
                Ok(Ok((buf, ret))) => format!("OK {} {} -", hex(&buf), ret),
            }
        }
        _ => panic!("bad flavour"),
    }
}

fn dec(fl: &str, max: usize, bytes: &[u8]) -> String {
    let mut buf = BytesMut::from(bytes);
    let before = buf.len();
    match fl {
        "C" => match catch_unwind(AssertUnwindSafe(|| c4::Packet::read(&mut buf, max))) {
            Err(_) => "PANIC".into(),
            Ok(Ok(p)) => format!("PKT {} {}", show_canon(&from_client(p)), before - buf.len()),
            Ok(Err(c::Error::InsufficientBytes(k))) => format!("MORE {k}"),
            Ok(Err(e)) => format!("MAL {} {}", c_kind(&e), before - buf.len()),
        },
        "B" => match catch_unwind(AssertUnwindSafe(|| b::v4::V4.read_mut(&mut buf, max))) {
            Err(_) => "PANIC".into(),
            Ok(Ok(p)) => format!("PKT {} {}", show_canon(&from_broker(p)), before - buf.len()),
            Ok(Err(b::Error::InsufficientBytes(k))) => format!("MORE {k}"),
            Ok(Err(e)) => format!("MAL {} {}", b_kind(&e), before - buf.len()),
        },
        _ => panic!("bad flavour"),
    }
}

/// link::network::Error is not nameable from outside the crate: classify it by its
/// Debug (variant, io kind) and Display ("I/O = <msg>") output.
fn net_term<E: std::fmt::Debug + std::fmt::Display>(e: E) -> String {
    let d = format!("{e:?}");
    if let Some(inner) = d.strip_prefix("Protocol(") {
        format!("MAL {}", kind_of_debug(inner))
    } else if d.starts_with("Io(") && d.contains("ConnectionAborted") {
        "END clean".into()
    } else if d.starts_with("Io(") && d.contains("ConnectionReset") {
        "END partial".into()
    } else if d.starts_with("Io(") && d.contains("InvalidData") {
        let m = e.to_string();
        format!("MAL {}", b_kind_of_msg(m.strip_prefix("I/O = ").unwrap_or(&m)))
    } else {
        format!("OTHER {d}").replace(' ', "_")
    }
}

type Out = Rc<RefCell<Vec<String>>>;
type Reader = std::pin::Pin<Box<dyn Future<Output = ()>>>;

/// Feed the chunks one at a time through an in-memory duplex; after each chunk the reader future
/// (built by `mk` around the real framing code) is polled until it is blocked on the (empty)
/// socket, so every chunk boundary is seen by the real framing loop.
fn run_stream(chunks: &[Vec<u8>], mk: impl FnOnce(tokio::io::DuplexStream, Out) -> Reader + 'static) -> String {
    use tokio::io::AsyncWriteExt;
    let total: usize = chunks.iter().map(|c| c.len()).sum();
    let out: Out = Rc::new(RefCell::new(vec![]));
    let out2 = out.clone();
    let chunks = chunks.to_vec();
    let r = catch_unwind(AssertUnwindSafe(move || {
        let rt = tokio::runtime::Builder::new_current_thread().enable_all().build().unwrap();
        rt.block_on(tokio::task::unconstrained(async move {
            let (mut tx, rx) = tokio::io::duplex(total + 16);
            let mut reader = mk(rx, out2);
            let mut done = false;
            for ch in chunks.iter() {
                tx.write_all(ch).await.unwrap();
                done = std::future::poll_fn(|cx| Poll::Ready(reader.as_mut().poll(cx).is_ready())).await;
                if done {
                    break;
                }
            }
            if !done {
                drop(tx);
                reader.await;
            }
        }))
    }));
    let mut parts = out.borrow().clone();
    if r.is_err() {
        parts.push("PANIC".into());
    }
    parts.join(" | ")
}

fn stream(fl: &str, max: usize, chunks: &[Vec<u8>]) -> String {
    if fl == "C" {
        run_stream(chunks, move |rx, out| {
            let mut net = rumqttc::verif::Network::new(rx, max, usize::MAX);
            Box::pin(async move {
                loop {
                    match net.read().await {
                        Ok(p) => out.borrow_mut().push(format!("PKT {}", show_canon(&from_client(p)))),
                        Err(rumqttc::StateError::ConnectionAborted) => {
                            out.borrow_mut().push("END clean".into());
                            break;
                        }
                        // tokio_util Framed at EOF with an undecodable remainder: io error "bytes remaining on stream"
                        Err(rumqttc::StateError::Deserialization(c::Error::Io(_))) => {
                            out.borrow_mut().push("END partial".into());
                            break;
                        }
                        Err(rumqttc::StateError::Deserialization(e)) => {
                            out.borrow_mut().push(format!("MAL {}", c_kind(&e)));
                            break;
                        }
                        Err(e) => {
                            out.borrow_mut().push(format!("OTHER {e:?}").replace(' ', "_"));
                            break;
                        }
                    }
                }
            })
        })
    } else {
        run_stream(chunks, move |rx, out| {
            let mut net = rumqttd::verif::Network::new(Box::new(rx), max, 4, b::v4::V4);
            Box::pin(async move {
                loop {
                    match net.read().await {
                        Ok(p) => out.borrow_mut().push(format!("PKT {}", show_canon(&from_broker(p)))),
                        Err(e) => {
                            out.borrow_mut().push(net_term(e));
                            break;
                        }
                    }
                    let mut q = VecDeque::new();
                    let r = net.readv(&mut q);
                    for p in q {
                        out.borrow_mut().push(format!("PKT {}", show_canon(&from_broker(p))));
                    }
                    if let Err(e) = r {
                        out.borrow_mut().push(net_term(e));
                        break;
                    }
                }
            })
        })
    }
}

fn main() {
    silence_panics();
    let stdin = io::stdin();
    let mut out = BufWriter::new(io::stdout());
    for line in stdin.lock().lines() {
        let line = line.unwrap();
        let t: Vec<&str> = line.split_whitespace().collect();
        if t.is_empty() {
            continue;
        }
        let ans = match t[0] {
            "ENC" if t[1] == "4" => enc(t[2], num(t[3]), &parse_canon(&t[4..])),
            "DEC" if t[1] == "4" => dec(t[2], num(t[3]), &unhex(t[4])),
            "STREAM" if t[1] == "4" => {
                let chunks: Vec<Vec<u8>> = t[4..].iter().map(|c| unhex(c)).collect();
                stream(t[2], num(t[3]), &chunks)
            }
            "ENC" if t[1] == "5" => v5::enc5(t[2], t[3], &v5::parse_canon5(&t[4..])),
            "DEC" if t[1] == "5" => v5::dec5(t[2], t[3], &unhex(t[4])),
            "STREAM" if t[1] == "5" => {
                let chunks: Vec<Vec<u8>> = t[4..].iter().map(|c| unhex(c)).collect();
                v5::stream5(t[2], t[3], &chunks)
            }
            "UTF8" => {
                let v = unhex(t[1]);
                (if String::from_utf8(v).is_ok() { "T" } else { "F" }).to_string()
            }
            "WF" | "NORM" => "-".to_string(),
            other => panic!("bad op {other}"),
        };
        writeln!(out, "{ans}").unwrap();
    }
}
