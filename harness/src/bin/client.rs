//! Correspondence driver for M-CLIENT: drives the real `rumqttc::MqttState` (v4) and
//! `rumqttc::v5::MqttState` (v5) through their public API with the ops read from stdin.
//!   NEW <ver> <max_inflight> <manual_acks> | OUT <request> | IN <packet> | CLEAN
//! One answer line per op (same format as ocaml/client_driver.ml):
//!   OK <packet|-> EV[..] INFL <n> COLL <0|1> | OK [<request> ..] EV[..] INFL .. COLL ..
//!   ERR <kind> EV[..] INFL .. COLL .. | PANIC | DEAD (after a panic, until the next NEW)
use std::io::{self, BufRead, BufWriter, Write};
use std::panic::{catch_unwind, AssertUnwindSafe};
use verif_harness::*;

mod v4 {
    use rumqttc::*;

    pub fn qos(s: &str) -> QoS {
        match s {
            "0" => QoS::AtMostOnce,
            "1" => QoS::AtLeastOnce,
            "2" => QoS::ExactlyOnce,
            _ => panic!("bad qos"),
        }
    }
    fn qos_n(q: QoS) -> u8 {
        q as u8
    }
    fn num(s: &str) -> u16 {
        s.parse().expect("number")
    }
    pub fn mk_pub(t: &[&str]) -> Publish {
        let mut p = Publish::new(format!("t{}", t[2]), qos(t[0]), t[3].as_bytes().to_vec());
        p.pkid = num(t[1]);
        p
    }
    fn tag(s: &str) -> String {
        match s.strip_prefix('t') {
            Some(r) if r.parse::<u64>().is_ok() => r.to_string(),
            _ => format!("x{}", crate::hex(s.as_bytes())),
        }
    }
    fn ptag(b: &[u8]) -> String {
        match std::str::from_utf8(b) {
            Ok(r) if r.parse::<u64>().is_ok() => r.to_string(),
            _ => format!("x{}", crate::hex(b)),
        }
    }
    pub fn pub_s(p: &Publish) -> String {
        format!("PUB:{}:{}:{}:{}", qos_n(p.qos), p.pkid, tag(&p.topic), ptag(&p.payload))
    }
    fn filters(n: usize) -> Vec<SubscribeFilter> {
        (0..n).map(|i| SubscribeFilter::new(format!("f{i}"), QoS::AtMostOnce)).collect()
    }
    pub fn request(t: &[&str]) -> Request {
        match t[0] {
            "PUB" => Request::Publish(mk_pub(&t[1..])),
            "PUBACK" => Request::PubAck(PubAck::new(num(t[1]))),
            "PUBREC" => Request::PubRec(PubRec::new(num(t[1]))),
            "PUBCOMP" => Request::PubComp(PubComp::new(num(t[1]))),
            "PUBREL" => Request::PubRel(PubRel::new(num(t[1]))),
            "PINGREQ" => Request::PingReq(PingReq),
            "PINGRESP" => Request::PingResp(PingResp),
            "SUB" => Request::Subscribe(Subscribe { pkid: 0, filters: filters(num(t[1]) as usize) }),
            "SUBACK" => Request::SubAck(SubAck::new(num(t[1]), vec![SubscribeReasonCode::Success(QoS::AtMostOnce)])),
            "UNSUB" => Request::Unsubscribe(Unsubscribe {
                pkid: 0,
                topics: (0..num(t[1])).map(|i| format!("f{i}")).collect(),
            }),
            "UNSUBACK" => Request::UnsubAck(UnsubAck::new(num(t[1]))),
            "DISCONNECT" => Request::Disconnect(Disconnect),
            o => panic!("bad request {o}"),
        }
    }
    pub fn packet(t: &[&str]) -> Packet {
        match t[0] {
            "PUB" => Packet::Publish(mk_pub(&t[1..])),
            "PUBACK" => Packet::PubAck(PubAck::new(num(t[1]))),
            "PUBREC" => Packet::PubRec(PubRec::new(num(t[1]))),
            "PUBREL" => Packet::PubRel(PubRel::new(num(t[1]))),
            "PUBCOMP" => Packet::PubComp(PubComp::new(num(t[1]))),
            "SUBACK" => Packet::SubAck(SubAck::new(num(t[1]), vec![SubscribeReasonCode::Success(QoS::AtMostOnce)])),
            "UNSUBACK" => Packet::UnsubAck(UnsubAck::new(num(t[1]))),
            "SUB" => Packet::Subscribe(Subscribe { pkid: num(t[1]), filters: filters(num(t[2]) as usize) }),
            "UNSUB" => Packet::Unsubscribe(Unsubscribe {
                pkid: num(t[1]),
                topics: (0..num(t[2])).map(|i| format!("f{i}")).collect(),
            }),
            "PINGREQ" => Packet::PingReq,
            "PINGRESP" => Packet::PingResp,
            "CONNECT" => Packet::Connect(Connect::new("c")),
            "CONNACK" => Packet::ConnAck(ConnAck::new(
                if t[2] == "0" { ConnectReturnCode::Success } else { ConnectReturnCode::NotAuthorized },
                t[1] == "1",
            )),
            "DISCONNECT" => Packet::Disconnect,
            o => panic!("bad packet {o}"),
        }
    }
    pub fn packet_s(p: &Packet) -> String {
        match p {
            Packet::Connect(_) => "CONNECT".into(),
            Packet::ConnAck(c) => format!(
                "CONNACK:{}:{}",
                c.session_present as u8,
                if c.code == ConnectReturnCode::Success { 0 } else { 5 }
            ),
            Packet::Publish(p) => pub_s(p),
            Packet::PubAck(a) => format!("PUBACK:{}", a.pkid),
            Packet::PubRec(a) => format!("PUBREC:{}", a.pkid),
            Packet::PubRel(a) => format!("PUBREL:{}", a.pkid),
            Packet::PubComp(a) => format!("PUBCOMP:{}", a.pkid),
            Packet::Subscribe(s) => format!("SUB:{}:{}", s.pkid, s.filters.len()),
            Packet::SubAck(s) => format!("SUBACK:{}", s.pkid),
            Packet::Unsubscribe(s) => format!("UNSUB:{}:{}", s.pkid, s.topics.len()),
            Packet::UnsubAck(s) => format!("UNSUBACK:{}", s.pkid),
            Packet::PingReq => "PINGREQ".into(),
            Packet::PingResp => "PINGRESP".into(),
            Packet::Disconnect => "DISCONNECT".into(),
        }
    }
    pub fn request_s(r: &Request) -> String {
        match r {
            Request::Publish(p) => pub_s(p),
            Request::PubAck(a) => format!("PUBACK:{}", a.pkid),
            Request::PubRec(a) => format!("PUBREC:{}", a.pkid),
            Request::PubComp(a) => format!("PUBCOMP:{}", a.pkid),
            Request::PubRel(a) => format!("PUBREL:{}", a.pkid),
            Request::PingReq(_) => "PINGREQ".into(),
            Request::PingResp(_) => "PINGRESP".into(),
            Request::Subscribe(s) => format!("SUB:{}:{}", s.pkid, s.filters.len()),
            Request::SubAck(s) => format!("SUBACK:{}", s.pkid),
            Request::Unsubscribe(s) => format!("UNSUB:{}:{}", s.pkid, s.topics.len()),
            Request::UnsubAck(s) => format!("UNSUBACK:{}", s.pkid),
            Request::Disconnect(_) => "DISCONNECT".into(),
        }
    }
    pub fn event_s(e: &Event) -> String {
        match e {
            Event::Incoming(p) => format!("I({})", packet_s(p)),
            Event::Outgoing(o) => format!(
                "O({})",
                match o {
                    Outgoing::Publish(i) => format!("PUB:{i}"),
                    Outgoing::Subscribe(i) => format!("SUB:{i}"),
                    Outgoing::Unsubscribe(i) => format!("UNSUB:{i}"),
                    Outgoing::PubAck(i) => format!("PUBACK:{i}"),
                    Outgoing::PubRec(i) => format!("PUBREC:{i}"),
                    Outgoing::PubRel(i) => format!("PUBREL:{i}"),
                    Outgoing::PubComp(i) => format!("PUBCOMP:{i}"),
                    Outgoing::PingReq => "PINGREQ".into(),
                    Outgoing::PingResp => "PINGRESP".into(),
                    Outgoing::Disconnect => "DISCONNECT".into(),
                    Outgoing::AwaitAck(i) => format!("AWAITACK:{i}"),
                }
            ),
        }
    }
    pub fn error_s(e: &StateError) -> String {
        match e {
            StateError::Io(_) => "Io".into(),
            StateError::InvalidState => "InvalidState".into(),
            StateError::Unsolicited(i) => format!("Unsolicited:{i}"),
            StateError::AwaitPingResp => "AwaitPingResp".into(),
            StateError::WrongPacket => "WrongPacket".into(),
            StateError::CollisionTimeout => "CollisionTimeout".into(),
            StateError::EmptySubscription => "EmptySubscription".into(),
            StateError::Deserialization(_) => "Deserialization".into(),
            StateError::ConnectionAborted => "ConnectionAborted".into(),
        }
    }
    pub fn tail(s: &mut MqttState) -> String {
        let evs: Vec<String> = s.events.drain(..).map(|e| event_s(&e)).collect();
        format!("EV[{}] INFL {} COLL {}", evs.join(" "), s.inflight(), s.collision.is_some() as u8)
    }
}


mod v5 {
    use rumqttc::v5::mqttbytes::v5::*;
    use rumqttc::v5::mqttbytes::QoS;
    use rumqttc::v5::{Event, MqttState, Request, StateError};
    use rumqttc::Outgoing;

    pub fn qos(s: &str) -> QoS {
        match s {
            "0" => QoS::AtMostOnce,
            "1" => QoS::AtLeastOnce,
            "2" => QoS::ExactlyOnce,
            _ => panic!("bad qos"),
        }
    }
    fn num(s: &str) -> u16 {
        s.parse().expect("number")
    }
    fn optn(s: &str) -> Option<u16> {
        if s == "-" { None } else { Some(num(s)) }
    }
    /// topic tag 0 = the empty topic
    pub fn mk_pub(t: &[&str]) -> Publish {
        let topic = if t[2] == "0" { String::new() } else { format!("t{}", t[2]) };
        let alias = if t.len() > 4 { optn(t[4]) } else { None };
        let props = alias.map(|a| PublishProperties { topic_alias: Some(a), ..Default::default() });
        let mut p = Publish::new(topic, qos(t[0]), t[3].as_bytes().to_vec(), props);
        p.pkid = num(t[1]);
        p
    }
    fn tag(b: &[u8]) -> String {
        if b.is_empty() {
            return "0".into();
        }
        match std::str::from_utf8(b).ok().and_then(|s| s.strip_prefix('t')) {
            Some(r) if r.parse::<u64>().is_ok() => r.to_string(),
            _ => format!("x{}", crate::hex(b)),
        }
    }
    fn ptag(b: &[u8]) -> String {
        match std::str::from_utf8(b) {
            Ok(r) if r.parse::<u64>().is_ok() => r.to_string(),
            _ => format!("x{}", crate::hex(b)),
        }
    }
    pub fn pub_s(p: &Publish) -> String {
        let a = p.properties.as_ref().and_then(|x| x.topic_alias).map(|a| format!(":a{a}")).unwrap_or_default();
        format!("PUB:{}:{}:{}:{}{}", p.qos as u8, p.pkid, tag(&p.topic), ptag(&p.payload), a)
    }
    fn filters(n: usize) -> Vec<Filter> {
        (0..n).map(|i| Filter::new(format!("f{i}"), QoS::AtMostOnce)).collect()
    }
    fn ack_reason(t: &[&str]) -> u8 {
        if t.len() > 2 { t[2].parse().unwrap() } else { 0 }
    }
    fn puback_reason(r: u8) -> PubAckReason {
        match r {
            0 => PubAckReason::Success,
            16 => PubAckReason::NoMatchingSubscribers,
            128 => PubAckReason::UnspecifiedError,
            135 => PubAckReason::NotAuthorized,
            151 => PubAckReason::QuotaExceeded,
            _ => panic!("unsupported puback reason {r}"),
        }
    }
    fn pubrec_reason(r: u8) -> PubRecReason {
        match r {
            0 => PubRecReason::Success,
            16 => PubRecReason::NoMatchingSubscribers,
            128 => PubRecReason::UnspecifiedError,
            135 => PubRecReason::NotAuthorized,
            151 => PubRecReason::QuotaExceeded,
            _ => panic!("unsupported pubrec reason {r}"),
        }
    }
    fn puback_n(r: PubAckReason) -> u8 {
        match r {
            PubAckReason::Success => 0,
            PubAckReason::NoMatchingSubscribers => 16,
            PubAckReason::UnspecifiedError => 128,
            PubAckReason::ImplementationSpecificError => 131,
            PubAckReason::NotAuthorized => 135,
            PubAckReason::TopicNameInvalid => 144,
            PubAckReason::PacketIdentifierInUse => 145,
            PubAckReason::QuotaExceeded => 151,
            PubAckReason::PayloadFormatInvalid => 153,
        }
    }
    fn pubrec_n(r: PubRecReason) -> u8 {
        match r {
            PubRecReason::Success => 0,
            PubRecReason::NoMatchingSubscribers => 16,
            PubRecReason::UnspecifiedError => 128,
            PubRecReason::ImplementationSpecificError => 131,
            PubRecReason::NotAuthorized => 135,
            PubRecReason::TopicNameInvalid => 144,
            PubRecReason::PacketIdentifierInUse => 145,
            PubRecReason::QuotaExceeded => 151,
            PubRecReason::PayloadFormatInvalid => 153,
        }
    }
    fn disc_reason(r: u8) -> DisconnectReasonCode {
        match r {
            0 => DisconnectReasonCode::NormalDisconnection,
            130 => DisconnectReasonCode::ProtocolError,
            139 => DisconnectReasonCode::ServerShuttingDown,
            142 => DisconnectReasonCode::SessionTakenOver,
            _ => panic!("unsupported disconnect reason {r}"),
        }
    }
    pub fn request(t: &[&str]) -> Request {
        match t[0] {
            "PUB" => Request::Publish(mk_pub(&t[1..])),
            "PUBACK" => Request::PubAck(PubAck::new(num(t[1]), None)),
            "PUBREC" => Request::PubRec(PubRec::new(num(t[1]), None)),
            "PUBCOMP" => Request::PubComp(PubComp::new(num(t[1]), None)),
            "PUBREL" => Request::PubRel(PubRel::new(num(t[1]), None)),
            "PINGREQ" => Request::PingReq,
            "PINGRESP" => Request::PingResp,
            "SUB" => Request::Subscribe(Subscribe { pkid: 0, filters: filters(num(t[1]) as usize), properties: None }),
            "SUBACK" => Request::SubAck(SubAck { pkid: num(t[1]), return_codes: vec![SubscribeReasonCode::Success(QoS::AtMostOnce)], properties: None }),
            "UNSUB" => Request::Unsubscribe(Unsubscribe { pkid: 0, filters: (0..num(t[1])).map(|i| format!("f{i}")).collect(), properties: None }),
            "UNSUBACK" => Request::UnsubAck(UnsubAck { pkid: num(t[1]), reasons: vec![UnsubAckReason::Success], properties: None }),
            "DISCONNECT" => Request::Disconnect,
            o => panic!("bad request {o}"),
        }
    }
    pub fn packet(t: &[&str]) -> Packet {
        match t[0] {
            "PUB" => Packet::Publish(mk_pub(&t[1..])),
            "PUBACK" => Packet::PubAck(PubAck { pkid: num(t[1]), reason: puback_reason(ack_reason(t)), properties: None }),
            "PUBREC" => Packet::PubRec(PubRec { pkid: num(t[1]), reason: pubrec_reason(ack_reason(t)), properties: None }),
            "PUBREL" => Packet::PubRel(PubRel {
                pkid: num(t[1]),
                reason: if ack_reason(t) == 0 { PubRelReason::Success } else { PubRelReason::PacketIdentifierNotFound },
                properties: None,
            }),
            "PUBCOMP" => Packet::PubComp(PubComp {
                pkid: num(t[1]),
                reason: if ack_reason(t) == 0 { PubCompReason::Success } else { PubCompReason::PacketIdentifierNotFound },
                properties: None,
            }),
            "SUBACK" => Packet::SubAck(SubAck { pkid: num(t[1]), return_codes: vec![SubscribeReasonCode::Success(QoS::AtMostOnce)], properties: None }),
            "UNSUBACK" => Packet::UnsubAck(UnsubAck { pkid: num(t[1]), reasons: vec![UnsubAckReason::Success], properties: None }),
            "SUB" => Packet::Subscribe(Subscribe { pkid: num(t[1]), filters: filters(num(t[2]) as usize), properties: None }),
            "UNSUB" => Packet::Unsubscribe(Unsubscribe { pkid: num(t[1]), filters: (0..num(t[2])).map(|i| format!("f{i}")).collect(), properties: None }),
            "PINGREQ" => Packet::PingReq(PingReq),
            "PINGRESP" => Packet::PingResp(PingResp),
            "CONNECT" => Packet::Connect(Connect { keep_alive: 10, client_id: "c".into(), clean_start: true, properties: None }, None, None),
            "CONNACK" => {
                let (rm, tam) = (optn(t[3]), optn(t[4]));
                let properties = if rm.is_some() || tam.is_some() {
                    Some(ConnAckProperties { receive_max: rm, topic_alias_max: tam, ..conn_props() })
                } else {
                    None
                };
                Packet::ConnAck(ConnAck {
                    session_present: t[1] == "1",
                    code: if t[2] == "0" { ConnectReturnCode::Success } else { ConnectReturnCode::NotAuthorized },
                    properties,
                })
            }
            "DISCONNECT" => Packet::Disconnect(Disconnect::new(disc_reason(if t.len() > 1 { t[1].parse().unwrap() } else { 0 }))),
            o => panic!("bad packet {o}"),
        }
    }
    fn conn_props() -> ConnAckProperties {
        ConnAckProperties {
            session_expiry_interval: None,
            receive_max: None,
            max_qos: None,
            retain_available: None,
            max_packet_size: None,
            assigned_client_identifier: None,
            topic_alias_max: None,
            reason_string: None,
            user_properties: vec![],
            wildcard_subscription_available: None,
            subscription_identifiers_available: None,
            shared_subscription_available: None,
            server_keep_alive: None,
            response_information: None,
            server_reference: None,
            authentication_method: None,
            authentication_data: None,
        }
    }
    fn ack_s(k: &str, id: u16, r: u8) -> String {
        if r == 0 { format!("{k}:{id}") } else { format!("{k}:{id}:{r}") }
    }
    fn on(x: Option<u16>) -> String {
        x.map(|v| v.to_string()).unwrap_or("-".into())
    }
    pub fn packet_s(p: &Packet) -> String {
        match p {
            Packet::Auth(_) => "AUTH".into(),
            Packet::Connect(..) => "CONNECT".into(),
            Packet::ConnAck(c) => format!(
                "CONNACK:{}:{}:{}:{}",
                c.session_present as u8,
                if c.code == ConnectReturnCode::Success { 0 } else { 135 },
                on(c.properties.as_ref().and_then(|p| p.receive_max)),
                on(c.properties.as_ref().and_then(|p| p.topic_alias_max))
            ),
            Packet::Publish(p) => pub_s(p),
            Packet::PubAck(a) => ack_s("PUBACK", a.pkid, puback_n(a.reason)),
            Packet::PubRec(a) => ack_s("PUBREC", a.pkid, pubrec_n(a.reason)),
            Packet::PubRel(a) => ack_s("PUBREL", a.pkid, if a.reason == PubRelReason::Success { 0 } else { 146 }),
            Packet::PubComp(a) => ack_s("PUBCOMP", a.pkid, if a.reason == PubCompReason::Success { 0 } else { 146 }),
            Packet::Subscribe(s) => format!("SUB:{}:{}", s.pkid, s.filters.len()),
            Packet::SubAck(s) => format!("SUBACK:{}", s.pkid),
            Packet::Unsubscribe(s) => format!("UNSUB:{}:{}", s.pkid, s.filters.len()),
            Packet::UnsubAck(s) => format!("UNSUBACK:{}", s.pkid),
            Packet::PingReq(_) => "PINGREQ".into(),
            Packet::PingResp(_) => "PINGRESP".into(),
            Packet::Disconnect(d) => {
                let r = d.reason_code as u8;
                if r == 0 { "DISCONNECT".into() } else { format!("DISCONNECT:{r}") }
            }
        }
    }
    pub fn request_s(r: &Request) -> String {
        match r {
            Request::Publish(p) => pub_s(p),
            Request::PubAck(a) => format!("PUBACK:{}", a.pkid),
            Request::PubRec(a) => format!("PUBREC:{}", a.pkid),
            Request::PubComp(a) => format!("PUBCOMP:{}", a.pkid),
            Request::PubRel(a) => format!("PUBREL:{}", a.pkid),
            Request::PingReq => "PINGREQ".into(),
            Request::PingResp => "PINGRESP".into(),
            Request::Subscribe(s) => format!("SUB:{}:{}", s.pkid, s.filters.len()),
            Request::SubAck(s) => format!("SUBACK:{}", s.pkid),
            Request::Unsubscribe(s) => format!("UNSUB:{}:{}", s.pkid, s.filters.len()),
            Request::UnsubAck(s) => format!("UNSUBACK:{}", s.pkid),
            Request::Disconnect => "DISCONNECT".into(),
        }
    }
    pub fn event_s(e: &Event) -> String {
        match e {
            Event::Incoming(p) => format!("I({})", packet_s(p)),
            Event::Outgoing(o) => format!(
                "O({})",
                match o {
                    Outgoing::Publish(i) => format!("PUB:{i}"),
                    Outgoing::Subscribe(i) => format!("SUB:{i}"),
                    Outgoing::Unsubscribe(i) => format!("UNSUB:{i}"),
                    Outgoing::PubAck(i) => format!("PUBACK:{i}"),
                    Outgoing::PubRec(i) => format!("PUBREC:{i}"),
                    Outgoing::PubRel(i) => format!("PUBREL:{i}"),
                    Outgoing::PubComp(i) => format!("PUBCOMP:{i}"),
                    Outgoing::PingReq => "PINGREQ".into(),
                    Outgoing::PingResp => "PINGRESP".into(),
                    Outgoing::Disconnect => "DISCONNECT".into(),
                    Outgoing::AwaitAck(i) => format!("AWAITACK:{i}"),
                }
            ),
        }
    }
    pub fn error_s(e: &StateError) -> String {
        match e {
            StateError::Unsolicited(i) => format!("Unsolicited:{i}"),
            StateError::AwaitPingResp => "AwaitPingResp".into(),
            StateError::WrongPacket => "WrongPacket".into(),
            StateError::CollisionTimeout => "CollisionTimeout".into(),
            StateError::EmptySubscription => "EmptySubscription".into(),
            StateError::InvalidAlias { alias, max } => format!("InvalidAlias:{alias}:{max}"),
            StateError::ServerDisconnect { reason_code, .. } => format!("ServerDisconnect:{}", *reason_code as u8),
            StateError::ConnFail { reason } => format!(
                "ConnFail:{}",
                match reason {
                    ConnectReturnCode::Success => 0,
                    ConnectReturnCode::ProtocolError => 130,
                    _ => 135,
                }
            ),
            other => format!("Other:{}", format!("{other:?}").split(|c: char| !c.is_alphanumeric()).next().unwrap_or("")),
        }
    }
    pub fn tail(s: &mut MqttState) -> String {
        let evs: Vec<String> = s.events.drain(..).map(|e| event_s(&e)).collect();
        format!("EV[{}] INFL {} COLL {}", evs.join(" "), s.inflight(), s.collision.is_some() as u8)
    }
}

enum St {
    Dead,
    V4(rumqttc::MqttState),
    V5(rumqttc::v5::MqttState),
}

fn main() {
    silence_panics();
    let stdin = io::stdin();
    let mut out = BufWriter::new(io::stdout());
    let mut st = St::Dead;
    for line in stdin.lock().lines() {
        let line = line.unwrap();
        let t: Vec<&str> = line.split_whitespace().collect();
        if t.is_empty() {
            continue;
        }
        if t[0] == "NEW" {
            let max: u16 = t[2].parse().unwrap();
            let manual = t[3] == "1";
            st = match t[1] {
                "4" => St::V4(rumqttc::MqttState::new(max, manual)),
                "5" => St::V5(rumqttc::v5::MqttState::new(max, manual)),
                v => panic!("bad version {v}"),
            };
            writeln!(out, "NEW").unwrap();
            continue;
        }
        let ans = match &mut st {
            St::Dead => "DEAD".to_string(),
            St::V4(s) => {
                let r = catch_unwind(AssertUnwindSafe(|| match t[0] {
                    "OUT" => match s.handle_outgoing_packet(v4::request(&t[1..])) {
                        Ok(p) => format!("OK {}", p.map(|p| v4::packet_s(&p)).unwrap_or("-".into())),
                        Err(e) => format!("ERR {}", v4::error_s(&e)),
                    },
                    "IN" => match s.handle_incoming_packet(v4::packet(&t[1..])) {
                        Ok(p) => format!("OK {}", p.map(|p| v4::packet_s(&p)).unwrap_or("-".into())),
                        Err(e) => format!("ERR {}", v4::error_s(&e)),
                    },
                    "CLEAN" => {
                        let l: Vec<String> = s.clean().iter().map(v4::request_s).collect();
                        format!("OK [{}]", l.join(" "))
                    }
                    o => {
                        eprintln!("bad op {o}");
                        std::process::exit(2)
                    }
                }));
                match r {
                    Ok(a) => format!("{} {}", a, v4::tail(s)),
                    Err(_) => "PANIC".to_string(),
                }
            }
            St::V5(s) => {
                let r = catch_unwind(AssertUnwindSafe(|| match t[0] {
                    "OUT" => match s.handle_outgoing_packet(v5::request(&t[1..])) {
                        Ok(p) => format!("OK {}", p.map(|p| v5::packet_s(&p)).unwrap_or("-".into())),
                        Err(e) => format!("ERR {}", v5::error_s(&e)),
                    },
                    "IN" => match s.handle_incoming_packet(v5::packet(&t[1..])) {
                        Ok(p) => format!("OK {}", p.map(|p| v5::packet_s(&p)).unwrap_or("-".into())),
                        Err(e) => format!("ERR {}", v5::error_s(&e)),
                    },
                    "CLEAN" => {
                        let l: Vec<String> = s.clean().iter().map(v5::request_s).collect();
                        format!("OK [{}]", l.join(" "))
                    }
                    o => {
                        eprintln!("bad op {o}");
                        std::process::exit(2)
                    }
                }));
                match r {
                    Ok(a) => format!("{} {}", a, v5::tail(s)),
                    Err(_) => "PANIC".to_string(),
                }
            }
        };
        if ans == "PANIC" {
            st = St::Dead;
        }
        writeln!(out, "{ans}").unwrap();
    }
}
