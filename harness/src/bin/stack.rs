//! M-STACK driver: the broker's real per-connection task (`server::broker::remote`, through the
//! cfg(rumqtt_verif) entry points `remote_v4` / `remote_v5`) over in-memory duplex streams,
//! against a real `Router` running on its own thread.  The client side of every stream is
//! spoken with the PUBLIC codecs of rumqttc (v4 and v5).
//!
//! Input: scenarios, one command per line; every command prints exactly one line.
//!   SCENARIO <name>
//!   LISTEN <l> v4|v5 [static=<uhex>:<phex>,..] [cb=A|R|E:<cidhex|*>:<uhex>:<phex>] [timeout=<ms>] [dyn=0|1]
//!   OPEN <c> <l>                     spawn the connection task on a new duplex stream
//!   SEND <c> <item> ...              items are encoded and written with ONE write_all
//!   SENDM <c> <item>.. | <c> <item>..   one write per connection, no task runs in between
//!   TAP                              (before the first OPEN) log every event the tasks send to the router
//!   EVENTS                           the log so far: <connection id>:<event kind> ...
//!   RECV <c> <n> <ms>                read up to n packets (each within ms)
//!   UNTIL <c> <payloadhex> <ms>      read packets until a PUBLISH with that payload (fence)
//!   HEX <c> <ms>                     raw bytes received until EOF / silence (diagnostics)
//!   EOF <c>                          shut down the client's write half
//!   CLOSE <c>                        drop the client's end
//!   JOIN <c> <ms>                    wait for the connection task: done | panic | running
//!   SLEEP <ms>
//!   WRITE v4|v5 <kind> <props 0|1> <variant 0|1> [sid=n] [cd=n] [ps=n] [tl=n] [rs=n]
//!                                    real Protocol::write + rumqttc decode of the bytes; the options size the
//!                                    subscription identifier / correlation data / payload / topic / reason string
//!   END                              close everything, report panicked / stuck tasks
//! Items (no spaces; values hex, "-" = empty): raw;<hex> | connect;id=..;ka=..;clean=..[;user=..;pass=..]
//!   [;wt=..;wm=..;wq=..;wr=..][;v=4|5][;wdelay=..;sexp=..;tam=..;rmax=..;mps=..] | subscribe;pkid=..;f=..;q=..[;sid=..] |
//!   unsubscribe;pkid=..;f=.. | publish;t=..;p=..;q=..;pkid=..;r=..;d=..[;pfi=..;mei=..;alias=..;rt=..;cd=..;
//!   up=<k>.<v>,..;sid=n,n;ct=..] | puback;pkid=.. | pubrec | pubrel | pubcomp | pingreq | disconnect
//! Time is real (the router is another thread); absence is observed through fences, not sleeps.
use std::collections::HashMap;
use std::io::{BufRead, Write};
use std::sync::Arc;
use std::time::Duration;

use bytes::{Bytes, BytesMut};
use tokio::io::{AsyncReadExt, AsyncWriteExt, DuplexStream};
use tokio::task::JoinHandle;

use rumqttc::mqttbytes::v4 as c4;
use rumqttc::mqttbytes::QoS;
use rumqttc::v5::mqttbytes::v5 as c5;
use rumqttc::v5::mqttbytes::QoS as QoS5;
use rumqttd::verif::{remote_v4, remote_v5, ConnectionSettings, Router, RouterConfig, WillHandlers};
use verif_harness::{hex, silence_panics, unhex};

struct Listener {
    v5: bool,
    cfg: Arc<ConnectionSettings>,
}

struct Conn {
    v5: bool,
    stream: Option<DuplexStream>,
    buf: BytesMut,
    task: Option<JoinHandle<()>>,
    status: &'static str, // running | done | panic
    eof: bool,
}

fn kv(item: &str) -> (String, HashMap<String, String>) {
    let mut it = item.split(';');
    let kind = it.next().unwrap_or("").to_string();
    let mut m = HashMap::new();
    for p in it {
        match p.split_once('=') {
            Some((k, v)) => {
                m.insert(k.to_string(), v.to_string());
            }
            None => {
                m.insert("_".to_string(), p.to_string());
            }
        }
    }
    (kind, m)
}

fn s(m: &HashMap<String, String>, k: &str) -> String {
    String::from_utf8(unhex(m.get(k).map(|x| x.as_str()).unwrap_or("-"))).expect("utf8 in script")
}
fn b(m: &HashMap<String, String>, k: &str) -> Bytes {
    Bytes::from(unhex(m.get(k).map(|x| x.as_str()).unwrap_or("-")))
}
fn n(m: &HashMap<String, String>, k: &str, d: u64) -> u64 {
    m.get(k).map(|x| x.parse().expect("number in script")).unwrap_or(d)
}
fn q4(x: u64) -> QoS {
    match x {
        0 => QoS::AtMostOnce,
        1 => QoS::AtLeastOnce,
        _ => QoS::ExactlyOnce,
    }
}
fn q5(x: u64) -> QoS5 {
    match x {
        0 => QoS5::AtMostOnce,
        1 => QoS5::AtLeastOnce,
        _ => QoS5::ExactlyOnce,
    }
}

fn publish_props(m: &HashMap<String, String>) -> Option<c5::PublishProperties> {
    let keys = ["pfi", "mei", "alias", "rt", "cd", "up", "sid", "ct"];
    if !keys.iter().any(|k| m.contains_key(*k)) {
        return None;
    }
    let mut p = c5::PublishProperties::default();
    if m.contains_key("pfi") {
        p.payload_format_indicator = Some(n(m, "pfi", 0) as u8);
    }
    if m.contains_key("mei") {
        p.message_expiry_interval = Some(n(m, "mei", 0) as u32);
    }
    if m.contains_key("alias") {
        p.topic_alias = Some(n(m, "alias", 0) as u16);
    }
    if m.contains_key("rt") {
        p.response_topic = Some(s(m, "rt"));
    }
    if m.contains_key("cd") {
        p.correlation_data = Some(b(m, "cd"));
    }
    if let Some(up) = m.get("up") {
        for pair in up.split(',') {
            let (k, v) = pair.split_once('.').expect("k.v");
            p.user_properties.push((
                String::from_utf8(unhex(k)).unwrap(),
                String::from_utf8(unhex(v)).unwrap(),
            ));
        }
    }
    if let Some(sid) = m.get("sid") {
        for x in sid.split(',') {
            p.subscription_identifiers.push(x.parse().unwrap());
        }
    }
    if m.contains_key("ct") {
        p.content_type = Some(s(m, "ct"));
    }
    Some(p)
}

/// encode one item with the codec of protocol version `v5` (overridden by `v=`)
fn encode(item: &str, conn_v5: bool, out: &mut BytesMut) -> Result<(), String> {
    let (kind, m) = kv(item);
    if kind == "raw" {
        out.extend_from_slice(&unhex(m.get("_").map(|x| x.as_str()).unwrap_or("-")));
        return Ok(());
    }
    let v5 = match m.get("v").map(|x| x.as_str()) {
        Some("4") => false,
        Some("5") => true,
        _ => conn_v5,
    };
    let max = 1 << 24;
    if !v5 {
        let p = match kind.as_str() {
            "connect" => {
                let mut c = c4::Connect::new(s(&m, "id"));
                c.keep_alive = n(&m, "ka", 5) as u16;
                c.clean_session = n(&m, "clean", 1) == 1;
                if m.contains_key("user") {
                    c.login = Some(c4::Login { username: s(&m, "user"), password: s(&m, "pass") });
                }
                if m.contains_key("wt") {
                    c.last_will = Some(c4::LastWill {
                        topic: s(&m, "wt"),
                        message: b(&m, "wm"),
                        qos: q4(n(&m, "wq", 0)),
                        retain: n(&m, "wr", 0) == 1,
                    });
                }
                c4::Packet::Connect(c)
            }
            "subscribe" => c4::Packet::Subscribe(c4::Subscribe {
                pkid: n(&m, "pkid", 1) as u16,
                filters: vec![c4::SubscribeFilter { path: s(&m, "f"), qos: q4(n(&m, "q", 0)) }],
            }),
            "unsubscribe" => c4::Packet::Unsubscribe(c4::Unsubscribe { pkid: n(&m, "pkid", 1) as u16, topics: vec![s(&m, "f")] }),
            "publish" => c4::Packet::Publish(c4::Publish {
                dup: n(&m, "d", 0) == 1,
                qos: q4(n(&m, "q", 0)),
                retain: n(&m, "r", 0) == 1,
                topic: s(&m, "t"),
                pkid: n(&m, "pkid", 0) as u16,
                payload: b(&m, "p"),
            }),
            "puback" => c4::Packet::PubAck(c4::PubAck::new(n(&m, "pkid", 1) as u16)),
            "pubrec" => c4::Packet::PubRec(c4::PubRec::new(n(&m, "pkid", 1) as u16)),
            "pubrel" => c4::Packet::PubRel(c4::PubRel::new(n(&m, "pkid", 1) as u16)),
            "pubcomp" => c4::Packet::PubComp(c4::PubComp::new(n(&m, "pkid", 1) as u16)),
            "pingreq" => c4::Packet::PingReq,
            "disconnect" => c4::Packet::Disconnect,
            k => return Err(format!("unknown item {k}")),
        };
        p.write(out, max).map_err(|e| format!("encode {e:?}"))?;
    } else {
        let p = match kind.as_str() {
            "connect" => {
                let mut props = c5::ConnectProperties::new();
                let mut any = false;
                if m.contains_key("sexp") {
                    props.session_expiry_interval = Some(n(&m, "sexp", 0) as u32);
                    any = true;
                }
                if m.contains_key("tam") {
                    props.topic_alias_max = Some(n(&m, "tam", 0) as u16);
                    any = true;
                }
                if m.contains_key("rmax") {
                    props.receive_maximum = Some(n(&m, "rmax", 0) as u16);
                    any = true;
                }
                if m.contains_key("mps") {
                    props.max_packet_size = Some(n(&m, "mps", 0) as u32);
                    any = true;
                }
                let c = c5::Connect {
                    keep_alive: n(&m, "ka", 5) as u16,
                    client_id: s(&m, "id"),
                    clean_start: n(&m, "clean", 1) == 1,
                    properties: if any { Some(props) } else { None },
                };
                let login = if m.contains_key("user") {
                    Some(c5::Login { username: s(&m, "user"), password: s(&m, "pass") })
                } else {
                    None
                };
                let will = if m.contains_key("wt") {
                    let wp = if m.contains_key("wdelay") {
                        Some(c5::LastWillProperties {
                            delay_interval: Some(n(&m, "wdelay", 0) as u32),
                            payload_format_indicator: None,
                            message_expiry_interval: None,
                            content_type: None,
                            response_topic: None,
                            correlation_data: None,
                            user_properties: vec![],
                        })
                    } else {
                        None
                    };
                    Some(c5::LastWill {
                        topic: b(&m, "wt"),
                        message: b(&m, "wm"),
                        qos: q5(n(&m, "wq", 0)),
                        retain: n(&m, "wr", 0) == 1,
                        properties: wp,
                    })
                } else {
                    None
                };
                c5::Packet::Connect(c, will, login)
            }
            "subscribe" => c5::Packet::Subscribe(c5::Subscribe {
                pkid: n(&m, "pkid", 1) as u16,
                filters: vec![c5::Filter {
                    path: s(&m, "f"),
                    qos: q5(n(&m, "q", 0)),
                    nolocal: false,
                    preserve_retain: false,
                    retain_forward_rule: c5::RetainForwardRule::OnEverySubscribe,
                }],
                properties: if m.contains_key("sid") {
                    Some(c5::SubscribeProperties { id: Some(n(&m, "sid", 1) as usize), user_properties: vec![] })
                } else {
                    None
                },
            }),
            "unsubscribe" => c5::Packet::Unsubscribe(c5::Unsubscribe { pkid: n(&m, "pkid", 1) as u16, filters: vec![s(&m, "f")], properties: None }),
            "publish" => c5::Packet::Publish(c5::Publish {
                dup: n(&m, "d", 0) == 1,
                qos: q5(n(&m, "q", 0)),
                retain: n(&m, "r", 0) == 1,
                topic: b(&m, "t"),
                pkid: n(&m, "pkid", 0) as u16,
                payload: b(&m, "p"),
                properties: publish_props(&m),
            }),
            "puback" => c5::Packet::PubAck(c5::PubAck::new(n(&m, "pkid", 1) as u16, None)),
            "pubrec" => c5::Packet::PubRec(c5::PubRec::new(n(&m, "pkid", 1) as u16, None)),
            "pubrel" => c5::Packet::PubRel(c5::PubRel::new(n(&m, "pkid", 1) as u16, None)),
            "pubcomp" => c5::Packet::PubComp(c5::PubComp::new(n(&m, "pkid", 1) as u16, None)),
            "pingreq" => c5::Packet::PingReq(c5::PingReq),
            "disconnect" => c5::Packet::Disconnect(c5::Disconnect { reason_code: c5::DisconnectReasonCode::NormalDisconnection, properties: None }),
            k => return Err(format!("unknown item {k}")),
        };
        p.write(out, None).map_err(|e| format!("encode {e:?}"))?;
    }
    Ok(())
}

fn qn4(q: QoS) -> u8 {
    q as u8
}
fn qn5(q: QoS5) -> u8 {
    q as u8
}

fn show_props(p: &Option<c5::PublishProperties>) -> String {
    let Some(p) = p else { return String::new() };
    let mut o = String::from(";props");
    if let Some(x) = p.payload_format_indicator {
        o += &format!(";pfi={x}");
    }
    if let Some(x) = p.message_expiry_interval {
        o += &format!(";mei={x}");
    }
    if let Some(x) = p.topic_alias {
        o += &format!(";alias={x}");
    }
    if let Some(x) = &p.response_topic {
        o += &format!(";rt={}", hex(x.as_bytes()));
    }
    if let Some(x) = &p.correlation_data {
        o += &format!(";cd={}", hex(x));
    }
    if !p.user_properties.is_empty() {
        let v: Vec<String> = p.user_properties.iter().map(|(k, v)| format!("{}.{}", hex(k.as_bytes()), hex(v.as_bytes()))).collect();
        o += &format!(";up={}", v.join(","));
    }
    if !p.subscription_identifiers.is_empty() {
        let v: Vec<String> = p.subscription_identifiers.iter().map(|x| x.to_string()).collect();
        o += &format!(";sid={}", v.join(","));
    }
    if let Some(x) = &p.content_type {
        o += &format!(";ct={}", hex(x.as_bytes()));
    }
    o
}

fn show4(p: &c4::Packet) -> String {
    match p {
        c4::Packet::ConnAck(a) => format!("connack;sp={};code={:?}", a.session_present as u8, a.code),
        c4::Packet::Publish(p) => format!(
            "publish;t={};p={};q={};pkid={};r={};d={}",
            hex(p.topic.as_bytes()), hex(&p.payload), qn4(p.qos), p.pkid, p.retain as u8, p.dup as u8
        ),
        c4::Packet::PubAck(a) => format!("puback;pkid={}", a.pkid),
        c4::Packet::PubRec(a) => format!("pubrec;pkid={}", a.pkid),
        c4::Packet::PubRel(a) => format!("pubrel;pkid={}", a.pkid),
        c4::Packet::PubComp(a) => format!("pubcomp;pkid={}", a.pkid),
        c4::Packet::SubAck(a) => format!("suback;pkid={};codes={:?}", a.pkid, a.return_codes).replace(' ', ""),
        c4::Packet::UnsubAck(a) => format!("unsuback;pkid={}", a.pkid),
        c4::Packet::PingResp => "pingresp".to_string(),
        c4::Packet::Disconnect => "disconnect".to_string(),
        other => format!("other;{:?}", other).replace(' ', "_"),
    }
}

fn show5(p: &c5::Packet) -> String {
    match p {
        c5::Packet::ConnAck(a) => {
            let acid = a.properties.as_ref().and_then(|p| p.assigned_client_identifier.as_ref());
            format!(
                "connack;sp={};code={:?}{}",
                a.session_present as u8,
                a.code,
                acid.map_or(String::new(), |x| format!(";acid={}", hex(x.as_bytes())))
            )
        }
        c5::Packet::Publish(p) => format!(
            "publish;t={};p={};q={};pkid={};r={};d={}{}",
            hex(&p.topic), hex(&p.payload), qn5(p.qos), p.pkid, p.retain as u8, p.dup as u8, show_props(&p.properties)
        ),
        c5::Packet::PubAck(a) => format!("puback;pkid={};reason={:?}", a.pkid, a.reason),
        c5::Packet::PubRec(a) => format!("pubrec;pkid={};reason={:?}", a.pkid, a.reason),
        c5::Packet::PubRel(a) => format!("pubrel;pkid={};reason={:?}", a.pkid, a.reason),
        c5::Packet::PubComp(a) => format!("pubcomp;pkid={};reason={:?}", a.pkid, a.reason),
        c5::Packet::SubAck(a) => format!("suback;pkid={};codes={:?}", a.pkid, a.return_codes).replace(' ', ""),
        c5::Packet::UnsubAck(a) => format!("unsuback;pkid={};reasons={:?}", a.pkid, a.reasons).replace(' ', ""),
        c5::Packet::PingResp(_) => "pingresp".to_string(),
        c5::Packet::Disconnect(d) => format!("disconnect;reason={:?}", d.reason_code),
        other => format!("other;{:?}", other).replace(' ', "_"),
    }
}

/// `Protocol::write` of the real V4 / V5 writer on a packet of the given kind, with or without
/// properties (variant 1 = a non-success reason code), then rumqttc's decoder of the same
/// version on the bytes: `WRITE <Ok|Err|PANIC> hex=.. dec=.. rest=<undecoded bytes>`.
fn write_probe(v5: bool, kind: &str, props: bool, variant: u8, opts: &HashMap<String, String>) -> String {
    use rumqttd::verif::protocol as bp;
    use rumqttd::verif::protocol::Protocol;
    // boundary options: sid=<subscription identifier> cd=<correlation data bytes> ps=<payload bytes>
    // tl=<topic bytes> rs=<reason string bytes>; with sid/cd/rs the property block holds only those
    let opt = |k: &str| opts.get(k).map(|x| x.parse::<usize>().expect("number"));
    let pattern = |n: usize| -> Vec<u8> { (0..n).map(|i| ((i * 7 + 1) % 256) as u8).collect() };
    let rs = opt("rs").map(|n| "r".repeat(n));
    let up = || if rs.is_some() { vec![] } else { vec![("k".to_string(), "v".to_string())] };
    let nz = variant == 1;
    let packet = match kind {
        "connect" => bp::Packet::Connect(
            bp::Connect { keep_alive: 5, client_id: "c".into(), clean_session: true },
            if props {
                Some(bp::ConnectProperties {
                    session_expiry_interval: Some(1), receive_maximum: None, max_packet_size: None, topic_alias_max: None,
                    request_response_info: None, request_problem_info: None, user_properties: up(),
                    authentication_method: None, authentication_data: None,
                })
            } else { None },
            None, None, None,
        ),
        "connack" => bp::Packet::ConnAck(
            bp::ConnAck { session_present: false, code: if nz { bp::ConnectReturnCode::ClientIdentifierNotValid } else { bp::ConnectReturnCode::Success } },
            if props {
                if rs.is_some() { Some(bp::ConnAckProperties { reason_string: rs.clone(), ..Default::default() }) } else { Some(bp::ConnAckProperties { topic_alias_max: Some(4096), ..Default::default() }) }
            } else { None },
        ),
        "publish" => {
            let topic = match opt("tl") { Some(n) => Bytes::from("t".repeat(n)), None => Bytes::from_static(b"t/a") };
            let payload = match opt("ps") { Some(n) => Bytes::from(pattern(n)), None => Bytes::from_static(b"pl") };
            let pr = if !props {
                None
            } else if opt("sid").is_some() || opt("cd").is_some() {
                Some(bp::PublishProperties {
                    subscription_identifiers: opt("sid").into_iter().collect(),
                    correlation_data: opt("cd").map(|n| Bytes::from(pattern(n))),
                    ..Default::default()
                })
            } else {
                Some(bp::PublishProperties { user_properties: up(), content_type: Some("x".into()), ..Default::default() })
            };
            bp::Packet::Publish(rumqttd::verif::make_publish(false, bp::QoS::AtLeastOnce, 3, false, topic, payload), pr)
        }
        "puback" => bp::Packet::PubAck(
            bp::PubAck { pkid: 3, reason: if nz { bp::PubAckReason::NoMatchingSubscribers } else { bp::PubAckReason::Success } },
            if props { Some(bp::PubAckProperties { reason_string: rs.clone(), user_properties: up() }) } else { None },
        ),
        "pubrec" => bp::Packet::PubRec(
            bp::PubRec { pkid: 3, reason: if nz { bp::PubRecReason::NoMatchingSubscribers } else { bp::PubRecReason::Success } },
            if props { Some(bp::PubRecProperties { reason_string: rs.clone(), user_properties: up() }) } else { None },
        ),
        "pubrel" => bp::Packet::PubRel(
            bp::PubRel { pkid: 3, reason: if nz { bp::PubRelReason::PacketIdentifierNotFound } else { bp::PubRelReason::Success } },
            if props { Some(bp::PubRelProperties { reason_string: rs.clone(), user_properties: up() }) } else { None },
        ),
        "pubcomp" => bp::Packet::PubComp(
            bp::PubComp { pkid: 3, reason: if nz { bp::PubCompReason::PacketIdentifierNotFound } else { bp::PubCompReason::Success } },
            if props { Some(bp::PubCompProperties { reason_string: rs.clone(), user_properties: up() }) } else { None },
        ),
        "subscribe" => bp::Packet::Subscribe(
            bp::Subscribe {
                pkid: 3,
                filters: vec![bp::Filter { path: "t/#".into(), qos: bp::QoS::AtLeastOnce, nolocal: false, preserve_retain: false, retain_forward_rule: bp::RetainForwardRule::OnEverySubscribe }],
            },
            if props { Some(bp::SubscribeProperties { id: Some(1), user_properties: vec![] }) } else { None },
        ),
        "suback" => bp::Packet::SubAck(
            bp::SubAck { pkid: 3, return_codes: vec![if nz { bp::SubscribeReasonCode::Unspecified } else { bp::SubscribeReasonCode::Success(bp::QoS::AtLeastOnce) }] },
            if props { Some(bp::SubAckProperties { reason_string: rs.clone(), user_properties: up() }) } else { None },
        ),
        "unsubscribe" => bp::Packet::Unsubscribe(
            bp::Unsubscribe { pkid: 3, filters: vec!["t/#".into()] },
            if props { Some(bp::UnsubscribeProperties { user_properties: up() }) } else { None },
        ),
        "unsuback" => bp::Packet::UnsubAck(
            bp::UnsubAck { pkid: 3, reasons: vec![if nz { bp::UnsubAckReason::NoSubscriptionExisted } else { bp::UnsubAckReason::Success }] },
            if props { Some(bp::UnsubAckProperties { reason_string: rs.clone(), user_properties: up() }) } else { None },
        ),
        "pingreq" => bp::Packet::PingReq(bp::PingReq),
        "pingresp" => bp::Packet::PingResp(bp::PingResp),
        "disconnect" => bp::Packet::Disconnect(
            bp::Disconnect { reason_code: if nz { bp::DisconnectReasonCode::MalformedPacket } else { bp::DisconnectReasonCode::NormalDisconnection } },
            if props { Some(bp::DisconnectProperties { session_expiry_interval: None, reason_string: rs.clone(), user_properties: up(), server_reference: None }) } else { None },
        ),
        k => return format!("SCRIPT-ERROR kind {k}"),
    };
    let mut out = BytesMut::new();
    let r = std::panic::catch_unwind(std::panic::AssertUnwindSafe(|| {
        if v5 { bp::v5::V5.write(packet, &mut out) } else { bp::v4::V4.write(packet, &mut out) }
    }));
    let status = match r {
        Err(_) => return "WRITE PANIC".to_string(),
        Ok(Err(e)) => return format!("WRITE Err:{:?}", e).replace(' ', "_"),
        Ok(Ok(_)) => "Ok",
    };
    let h = hex(&out);
    let dec = if v5 {
        match c5::Packet::read(&mut out, None) {
            Ok(p) => match &p {
                c5::Packet::Disconnect(_) | c5::Packet::ConnAck(_) | c5::Packet::Publish(_) | c5::Packet::PubAck(_) | c5::Packet::PubRec(_)
                | c5::Packet::PubRel(_) | c5::Packet::PubComp(_) | c5::Packet::SubAck(_) | c5::Packet::UnsubAck(_) | c5::Packet::PingResp(_) => show5(&p),
                other => format!("{:?}", other).split(|c: char| !c.is_alphanumeric()).next().unwrap_or("").to_lowercase(),
            },
            Err(e) => format!("ERR:{:?}", e).replace(' ', "_"),
        }
    } else {
        match c4::Packet::read(&mut out, 1 << 24) {
            Ok(p) => match &p {
                c4::Packet::Connect(_) | c4::Packet::Subscribe(_) | c4::Packet::Unsubscribe(_) | c4::Packet::PingReq => {
                    format!("{:?}", p).split(|c: char| !c.is_alphanumeric()).next().unwrap_or("").to_lowercase()
                }
                _ => show4(&p),
            },
            Err(e) => format!("ERR:{:?}", e).replace(' ', "_"),
        }
    };
    format!("WRITE {status} hex={h} dec={dec} rest={}", out.len())
}

enum Got {
    Packet(String, Option<Vec<u8>>), // text, payload when it is a PUBLISH
    Eof,
    Timeout,
    Bad(String),
}

impl Conn {
    /// one packet from the client's side of the stream, decoded with rumqttc's codec
    async fn read_packet(&mut self, ms: u64) -> Got {
        loop {
            if !self.buf.is_empty() {
                if !self.v5 {
                    match c4::Packet::read(&mut self.buf, 1 << 24) {
                        Ok(p) => {
                            let pl = if let c4::Packet::Publish(x) = &p { Some(x.payload.to_vec()) } else { None };
                            return Got::Packet(show4(&p), pl);
                        }
                        Err(rumqttc::mqttbytes::Error::InsufficientBytes(_)) => {}
                        Err(e) => return Got::Bad(format!("{:?}:{}", e, hex(&self.buf)).replace(' ', "_")),
                    }
                } else {
                    match c5::Packet::read(&mut self.buf, None) {
                        Ok(p) => {
                            let pl = if let c5::Packet::Publish(x) = &p { Some(x.payload.to_vec()) } else { None };
                            return Got::Packet(show5(&p), pl);
                        }
                        Err(rumqttc::v5::mqttbytes::Error::InsufficientBytes(_)) => {}
                        Err(e) => return Got::Bad(format!("{:?}:{}", e, hex(&self.buf)).replace(' ', "_")),
                    }
                }
            }
            if self.eof {
                return Got::Eof;
            }
            let Some(stream) = self.stream.as_mut() else { return Got::Eof };
            match tokio::time::timeout(Duration::from_millis(ms), stream.read_buf(&mut self.buf)).await {
                Err(_) => return Got::Timeout,
                Ok(Ok(0)) | Ok(Err(_)) => {
                    self.eof = true;
                    if self.buf.is_empty() {
                        return Got::Eof;
                    }
                    return Got::Bad(format!("trailing:{}", hex(&self.buf)));
                }
                Ok(Ok(_)) => {}
            }
        }
    }

    async fn join(&mut self, ms: u64) -> &'static str {
        if let Some(h) = self.task.as_mut() {
            match tokio::time::timeout(Duration::from_millis(ms), h).await {
                Err(_) => {}
                Ok(Ok(())) => {
                    self.status = "done";
                    self.task = None;
                }
                Ok(Err(e)) => {
                    self.status = if e.is_panic() { "panic" } else { "cancelled" };
                    self.task = None;
                }
            }
        }
        self.status
    }
}

struct World {
    /// TAP: the connection tasks send their events to a forwarder that logs them (kind and
    /// connection id, in order) before handing them to the router unchanged
    tap: bool,
    events: Arc<std::sync::Mutex<Vec<String>>>,
    router_tx: Option<flume::Sender<(usize, rumqttd::verif::Event)>>,
    wills: WillHandlers,
    listeners: HashMap<String, Listener>,
    conns: Vec<(String, Conn)>,
}

impl World {
    fn new() -> World {
        World { tap: false, events: Arc::new(std::sync::Mutex::new(vec![])), router_tx: None, wills: WillHandlers::default(), listeners: HashMap::new(), conns: vec![] }
    }
    fn conn(&mut self, name: &str) -> Option<&mut Conn> {
        self.conns.iter_mut().rev().find(|(n, _)| n == name).map(|(_, c)| c)
    }
    fn router(&mut self) -> flume::Sender<(usize, rumqttd::verif::Event)> {
        if self.router_tx.is_none() {
            let config = RouterConfig {
                max_connections: 100,
                max_outgoing_packet_count: 200,
                max_segment_size: 1024 * 1024,
                max_segment_count: 10,
                custom_segment: None,
                initialized_filters: None,
                shared_subscriptions_strategy: Default::default(),
            };
            let real = Router::new(0, config).spawn();
            if self.tap {
                use rumqttd::verif::Event;
                let (ptx, prx) = flume::unbounded::<(usize, Event)>();
                let log = self.events.clone();
                std::thread::spawn(move || {
                    for (id, ev) in prx.iter() {
                        let kind = match &ev {
                            Event::Connect { .. } => "Connect".to_string(),
                            Event::Ready => "Ready".to_string(),
                            Event::DeviceData => "DeviceData".to_string(),
                            Event::Disconnect => "Disconnect".to_string(),
                            Event::PublishWill((cid, _)) => format!("PublishWill:{}", hex(cid.as_bytes())),
                            _ => "Other".to_string(),
                        };
                        log.lock().unwrap().push(format!("{id}:{kind}"));
                        if real.send((id, ev)).is_err() {
                            break;
                        }
                    }
                });
                self.router_tx = Some(ptx);
            } else {
                self.router_tx = Some(real);
            }
        }
        self.router_tx.clone().unwrap()
    }
}

fn listener(t: &[&str]) -> Result<Listener, String> {
    let v5 = match t[2] {
        "v4" => false,
        "v5" => true,
        x => return Err(format!("bad version {x}")),
    };
    let mut cfg = ConnectionSettings {
        connection_timeout_ms: 1000,
        max_payload_size: 20480,
        max_inflight_count: 100,
        auth: None,
        external_auth: None,
        dynamic_filters: true,
    };
    for o in &t[3..] {
        let (k, v) = o.split_once('=').ok_or("k=v")?;
        match k {
            "timeout" => cfg.connection_timeout_ms = v.parse().map_err(|_| "timeout")?,
            "dyn" => cfg.dynamic_filters = v == "1",
            "static" => {
                let mut m = HashMap::new();
                if v != "-" {
                    for pair in v.split(',') {
                        let (u, p) = pair.split_once(':').ok_or("u:p")?;
                        m.insert(String::from_utf8(unhex(u)).unwrap(), String::from_utf8(unhex(p)).unwrap());
                    }
                }
                cfg.auth = Some(m);
            }
            "cb" => {
                let parts: Vec<String> = v.split(':').map(|x| x.to_string()).collect();
                match parts[0].as_str() {
                    "A" => cfg.set_auth_handler(|_: String, _: String, _: String| async { true }),
                    "R" => cfg.set_auth_handler(|_: String, _: String, _: String| async { false }),
                    "E" => {
                        let cid = if parts[1] == "*" { None } else { Some(String::from_utf8(unhex(&parts[1])).unwrap()) };
                        let u = String::from_utf8(unhex(&parts[2])).unwrap();
                        let p = String::from_utf8(unhex(&parts[3])).unwrap();
                        cfg.set_auth_handler(move |c: String, user: String, pass: String| {
                            let ok = cid.as_ref().map_or(true, |x| *x == c) && user == u && pass == p;
                            async move { ok }
                        });
                    }
                    x => return Err(format!("bad cb {x}")),
                }
            }
            x => return Err(format!("bad option {x}")),
        }
    }
    Ok(Listener { v5, cfg: Arc::new(cfg) })
}

async fn recv_line(c: &mut Conn, count: usize, ms: u64, until: Option<Vec<u8>>) -> String {
    let mut parts: Vec<String> = vec![];
    loop {
        if until.is_none() && parts.len() >= count {
            break;
        }
        match c.read_packet(ms).await {
            Got::Packet(t, pl) => {
                parts.push(t);
                if let (Some(u), Some(pl)) = (&until, &pl) {
                    if u == pl {
                        break;
                    }
                }
            }
            Got::Eof => {
                parts.push("EOF".into());
                break;
            }
            Got::Timeout => {
                parts.push("TIMEOUT".into());
                break;
            }
            Got::Bad(x) => {
                parts.push(format!("BAD:{x}"));
                break;
            }
        }
    }
    if parts.is_empty() {
        "RECV -".to_string()
    } else {
        format!("RECV {}", parts.join(" | "))
    }
}

async fn command(w: &mut World, line: &str) -> String {
    let t: Vec<&str> = line.split_whitespace().collect();
    match t[0] {
        "SCENARIO" => {
            *w = World::new();
            format!("SCENARIO {}", t.get(1).unwrap_or(&"-"))
        }
        "LISTEN" => match listener(&t) {
            Ok(l) => {
                w.listeners.insert(t[1].to_string(), l);
                "OK".into()
            }
            Err(e) => format!("SCRIPT-ERROR {e}"),
        },
        "OPEN" => {
            let Some(l) = w.listeners.get(t[2]) else { return "SCRIPT-ERROR no listener".into() };
            let (v5, cfg) = (l.v5, l.cfg.clone());
            let tx = w.router();
            let (client, server) = tokio::io::duplex(1 << 20);
            let wills = w.wills.clone();
            let task = if v5 {
                tokio::spawn(async move { remote_v5(cfg, tx, Box::new(server), wills).await })
            } else {
                tokio::spawn(async move { remote_v4(cfg, tx, Box::new(server), wills).await })
            };
            w.conns.push((t[1].to_string(), Conn { v5, stream: Some(client), buf: BytesMut::new(), task: Some(task), status: "running", eof: false }));
            "OK".into()
        }
        "TAP" => {
            w.tap = true;
            "OK".into()
        }
        "EVENTS" => {
            let l = w.events.lock().unwrap();
            if l.is_empty() { "EVENTS -".to_string() } else { format!("EVENTS {}", l.join(" ")) }
        }
        "SENDM" => {
            // SENDM c1 item.. | c2 item.. : one write per connection, nothing runs in between
            let mut writes: Vec<(String, BytesMut)> = vec![];
            for group in t[1..].split(|x| *x == "|") {
                if group.is_empty() {
                    return "SCRIPT-ERROR empty group".into();
                }
                let Some(c) = w.conn(group[0]) else { return "SCRIPT-ERROR no conn".into() };
                let mut out = BytesMut::new();
                for item in &group[1..] {
                    if let Err(e) = encode(item, c.v5, &mut out) {
                        return format!("SCRIPT-ERROR {e}");
                    }
                }
                writes.push((group[0].to_string(), out));
            }
            let mut res = vec![];
            for (name, out) in writes {
                let c = w.conn(&name).unwrap();
                res.push(match c.stream.as_mut() {
                    None => "ERR".to_string(),
                    // the duplex buffer (1 MiB) takes these writes without suspending
                    Some(sx) => match sx.write_all(&out).await {
                        Ok(()) => "OK".to_string(),
                        Err(e) => format!("ERR:{:?}", e.kind()),
                    },
                });
            }
            tokio::task::yield_now().await;
            res.join(",")
        }
        "SEND" => {
            let Some(c) = w.conn(t[1]) else { return "SCRIPT-ERROR no conn".into() };
            let mut out = BytesMut::new();
            for item in &t[2..] {
                if let Err(e) = encode(item, c.v5, &mut out) {
                    return format!("SCRIPT-ERROR {e}");
                }
            }
            let Some(stream) = c.stream.as_mut() else { return "ERR closed".into() };
            match stream.write_all(&out).await {
                Ok(()) => {
                    // let the connection task see exactly this write before anything else happens
                    tokio::task::yield_now().await;
                    "OK".into()
                }
                Err(e) => format!("ERR {:?}", e.kind()),
            }
        }
        "RECV" => {
            let (cnt, ms) = (t[2].parse().unwrap_or(1), t[3].parse().unwrap_or(1000));
            let Some(c) = w.conn(t[1]) else { return "SCRIPT-ERROR no conn".into() };
            recv_line(c, cnt, ms, None).await
        }
        "UNTIL" => {
            let ms = t[3].parse().unwrap_or(1000);
            let u = unhex(t[2]);
            let Some(c) = w.conn(t[1]) else { return "SCRIPT-ERROR no conn".into() };
            recv_line(c, 0, ms, Some(u)).await
        }
        "WRITE" => {
            let mut opts = HashMap::new();
            for o in t.iter().skip(5) {
                if let Some((k, v)) = o.split_once('=') {
                    opts.insert(k.to_string(), v.to_string());
                }
            }
            write_probe(t[1] == "v5", t[2], t[3] == "1", t.get(4).map_or(0, |x| x.parse().unwrap_or(0)), &opts)
        }
        "HEX" => {
            // raw bytes until EOF or ms of silence (diagnostics; bypasses the decoder)
            let ms: u64 = t[2].parse().unwrap_or(1000);
            let Some(c) = w.conn(t[1]) else { return "SCRIPT-ERROR no conn".into() };
            let mut end = "TIMEOUT";
            while let Some(stream) = c.stream.as_mut() {
                match tokio::time::timeout(Duration::from_millis(ms), stream.read_buf(&mut c.buf)).await {
                    Err(_) => break,
                    Ok(Ok(0)) | Ok(Err(_)) => {
                        c.eof = true;
                        end = "EOF";
                        break;
                    }
                    Ok(Ok(_)) => {}
                }
            }
            let o = format!("HEX {} {}", hex(&c.buf), end);
            c.buf.clear();
            o
        }
        "EOF" => {
            let Some(c) = w.conn(t[1]) else { return "SCRIPT-ERROR no conn".into() };
            if let Some(sx) = c.stream.as_mut() {
                let _ = sx.shutdown().await;
            }
            tokio::task::yield_now().await;
            "OK".into()
        }
        "CLOSE" => {
            let Some(c) = w.conn(t[1]) else { return "SCRIPT-ERROR no conn".into() };
            c.stream = None;
            c.eof = true;
            tokio::task::yield_now().await;
            "OK".into()
        }
        "JOIN" => {
            let ms = t[2].parse().unwrap_or(1000);
            let Some(c) = w.conn(t[1]) else { return "SCRIPT-ERROR no conn".into() };
            format!("JOIN {}", c.join(ms).await)
        }
        "SLEEP" => {
            tokio::time::sleep(Duration::from_millis(t[1].parse().unwrap_or(0))).await;
            "OK".into()
        }
        "END" => {
            let mut panics = vec![];
            let mut stuck = vec![];
            for (_, c) in w.conns.iter_mut() {
                c.stream = None;
            }
            for (name, c) in w.conns.iter_mut() {
                match c.join(3000).await {
                    "panic" => panics.push(name.clone()),
                    "running" => {
                        stuck.push(name.clone());
                        if let Some(h) = c.task.take() {
                            h.abort();
                        }
                    }
                    _ => {}
                }
            }
            w.router_tx = None;
            let f = |v: Vec<String>| if v.is_empty() { "-".to_string() } else { v.join(",") };
            format!("END panics={} stuck={}", f(panics), f(stuck))
        }
        x => format!("SCRIPT-ERROR unknown command {x}"),
    }
}

fn main() {
    silence_panics();
    let rt = tokio::runtime::Builder::new_current_thread().enable_all().build().unwrap();
    let stdin = std::io::stdin();
    let stdout = std::io::stdout();
    rt.block_on(async {
        let mut w = World::new();
        for line in stdin.lock().lines() {
            let line = line.unwrap();
            let l = line.trim();
            if l.is_empty() || l.starts_with('#') {
                continue;
            }
            let ans = command(&mut w, l).await;
            let mut o = stdout.lock();
            writeln!(o, "{}", ans).unwrap();
            o.flush().unwrap();
        }
    });
    // router threads of finished scenarios are parked in recv(); leave without joining them
    std::process::exit(0);
}
