//! Correspondence driver for M-ROUTER: steps the real `rumqttd::Router` one event at a
//! time on a single thread through the `rumqtt_verif` hooks.
//!
//! Ops (one per line; strings are hex of their bytes, "-" = empty):
//!   NEW <maxconn> <maxout> <segsize> <segcount> <rr|random|sticky> <dbg> [<initfilter>...]
//!   CONNECT <client> <clean> <dynamic> <aliasmax> <will: - | topic,msg,qos,retain,tag|x>
//!   PUSH <link> <packet>   packet := PUB <topic> <payload> <qos> <pkid> <retain> <dup> <props>
//!        | SUB <pkid> <subid|-> <path:qos,...> | UNSUB <pkid> <path,...> | PUBACK <pkid>
//!        | PUBREC <pkid> | PUBREL <pkid> <hasprops> | PUBCOMP <pkid> | PING | DISC | OTHER
//!        props := - | A<alias|x>:S<id,id|x>:T<tag>
//!   DATA <id> | CONSUME | DRAIN <link> | READY <id> | DISCONNECT <id> | SHADOW <id> <filter>
//!   WILL <client> | METERS | SNAP
//! Answers: OK | SOME | NONE | NOLINK | PANIC | DEAD | [n | n | ...] for DRAIN.
//! Lines "ORACLE ..." printed before an answer are the nondeterministic choices the router
//! made during that op (HashMap iteration order / thread_rng), recorded by the hooks.
use bytes::Bytes;
use std::io::{self, BufRead, BufWriter, Write};
use std::panic::{catch_unwind, AssertUnwindSafe};
use verif_harness::*;

use rumqttd::verif::protocol::*;
use rumqttd::verif::{self, Ack, Event, LinkParts, Notification, Router, RouterConfig, ShadowRequest, Strategy};

struct Link {
    incoming: std::sync::Arc<parking_lot::Mutex<std::collections::VecDeque<Packet>>>,
    outgoing: std::sync::Arc<parking_lot::Mutex<std::collections::VecDeque<Notification>>>,
    _wake: flume::Receiver<()>,
}


fn qos_of(n: u8) -> QoS {
    match n {
        0 => QoS::AtMostOnce,
        1 => QoS::AtLeastOnce,
        _ => QoS::ExactlyOnce,
    }
}
fn qos_n(q: QoS) -> u8 {
    match q {
        QoS::AtMostOnce => 0,
        QoS::AtLeastOnce => 1,
        QoS::ExactlyOnce => 2,
    }
}

fn tag_to_user(tag: u64) -> Vec<(String, String)> {
    if tag == 0 {
        vec![]
    } else {
        vec![("t".to_string(), tag.to_string())]
    }
}
fn user_to_tag(u: &[(String, String)]) -> u64 {
    match u {
        [] => 0,
        [(k, v)] if k == "t" => v.parse().unwrap_or(999_999),
        _ => 999_999,
    }
}

fn parse_props(s: &str) -> Option<PublishProperties> {
    if s == "-" {
        return None;
    }
    let parts: Vec<&str> = s.split(':').collect();
    let alias = &parts[0][1..];
    let subs = &parts[1][1..];
    let tag: u64 = parts[2][1..].parse().unwrap();
    Some(PublishProperties {
        topic_alias: if alias == "x" { None } else { Some(alias.parse().unwrap()) },
        subscription_identifiers: if subs == "x" {
            vec![]
        } else {
            subs.split(',').map(|x| x.parse().unwrap()).collect()
        },
        user_properties: tag_to_user(tag),
        ..Default::default()
    })
}

fn show_props(p: &Option<PublishProperties>) -> String {
    match p {
        None => "-".to_string(),
        Some(p) => {
            let others_default = p.payload_format_indicator.is_none()
                && p.message_expiry_interval.is_none()
                && p.response_topic.is_none()
                && p.correlation_data.is_none()
                && p.content_type.is_none();
            let tag = if others_default { user_to_tag(&p.user_properties) } else { 999_999 };
            format!(
                "A{}:S{}:T{}",
                p.topic_alias.map(|a| a.to_string()).unwrap_or("x".into()),
                if p.subscription_identifiers.is_empty() {
                    "x".to_string()
                } else {
                    p.subscription_identifiers.iter().map(|x| x.to_string()).collect::<Vec<_>>().join(",")
                },
                tag
            )
        }
    }
}

fn parse_packet(t: &[&str]) -> Packet {
    match t[0] {
        "PUB" => {
            let p = verif::make_publish(
                t[6] == "1",
                qos_of(t[3].parse().unwrap()),
                t[4].parse().unwrap(),
                t[5] == "1",
                Bytes::from(unhex(t[1])),
                Bytes::from(unhex(t[2])),
            );
            Packet::Publish(p, parse_props(t[7]))
        }
        "SUB" => {
            let filters = t[3]
                .split(',')
                .filter(|x| !x.is_empty())
                .map(|f| {
                    let (p, q) = f.split_once(':').unwrap();
                    Filter {
                        path: String::from_utf8(unhex(p)).expect("filter must be utf8"),
                        qos: qos_of(q.parse().unwrap()),
                        nolocal: false,
                        preserve_retain: false,
                        retain_forward_rule: RetainForwardRule::OnEverySubscribe,
                    }
                })
                .collect();
            let props = if t[2] == "-" {
                None
            } else {
                Some(SubscribeProperties { id: Some(t[2].parse().unwrap()), user_properties: vec![] })
            };
            Packet::Subscribe(Subscribe { pkid: t[1].parse().unwrap(), filters }, props)
        }
        "UNSUB" => {
            let filters = t[2]
                .split(',')
                .filter(|x| !x.is_empty())
                .map(|p| String::from_utf8(unhex(p)).expect("filter must be utf8"))
                .collect();
            Packet::Unsubscribe(Unsubscribe { pkid: t[1].parse().unwrap(), filters }, None)
        }
        "PUBACK" => Packet::PubAck(PubAck { pkid: t[1].parse().unwrap(), reason: PubAckReason::Success }, None),
        "PUBREC" => Packet::PubRec(PubRec { pkid: t[1].parse().unwrap(), reason: PubRecReason::Success }, None),
        "PUBREL" => Packet::PubRel(
            PubRel { pkid: t[1].parse().unwrap(), reason: PubRelReason::Success },
            if t[2] == "1" { Some(PubRelProperties { reason_string: None, user_properties: vec![] }) } else { None },
        ),
        "PUBCOMP" => Packet::PubComp(PubComp { pkid: t[1].parse().unwrap(), reason: PubCompReason::Success }, None),
        "PING" => Packet::PingReq(PingReq),
        "DISC" => Packet::Disconnect(Disconnect { reason_code: DisconnectReasonCode::NormalDisconnection }, None),
        "OTHER" => Packet::PingResp(PingResp),
        x => panic!("bad packet {x}"),
    }
}

fn reason_n(r: DisconnectReasonCode) -> u32 {
    match r {
        DisconnectReasonCode::MalformedPacket => 129,
        DisconnectReasonCode::ProtocolError => 130,
        DisconnectReasonCode::TopicAliasInvalid => 148,
        DisconnectReasonCode::NormalDisconnection => 0,
        _ => 255,
    }
}

fn show_notification(n: &Notification) -> String {
    match n {
        Notification::Forward(f) => {
            let (dup, qos, pkid) = verif::publish_parts(&f.publish);
            format!(
                "FWD {} {} {} {} {} {} {} {}",
                f.cursor.map(|c| format!("{}.{}", c.0, c.1)).unwrap_or("-".into()),
                hex(&f.publish.topic),
                hex(&f.publish.payload),
                qos_n(qos),
                pkid,
                f.publish.retain as u8,
                dup as u8,
                show_props(&f.properties)
            )
        }
        Notification::DeviceAck(a) => match a {
            Ack::ConnAck(id, c, _) => format!(
                "ACK CONNACK {} {}{}",
                id,
                c.session_present as u8,
                if c.code == ConnectReturnCode::Success { "" } else { " FAIL" }
            ),
            Ack::PubAck(p) => format!("ACK PUBACK {}", p.pkid),
            Ack::SubAck(s) => format!(
                "ACK SUBACK {} {}",
                s.pkid,
                if s.return_codes.is_empty() {
                    "-".to_string()
                } else {
                    s.return_codes
                        .iter()
                        .map(|c| match c {
                            SubscribeReasonCode::QoS0 => "0".to_string(),
                            SubscribeReasonCode::QoS1 => "1".to_string(),
                            SubscribeReasonCode::QoS2 => "2".to_string(),
                            other => format!("?{other:?}"),
                        })
                        .collect::<Vec<_>>()
                        .join(",")
                }
            ),
            Ack::PubRec(p) => format!("ACK PUBREC {}", p.pkid),
            Ack::PubRel(p) => format!("ACK PUBREL {}", p.pkid),
            Ack::PubComp(p) => format!("ACK PUBCOMP {}", p.pkid),
            Ack::UnsubAck(p) => format!(
                "ACK UNSUBACK {} {}",
                p.pkid,
                if p.reasons.is_empty() {
                    "-".to_string()
                } else {
                    p.reasons
                        .iter()
                        .map(|c| match c {
                            UnsubAckReason::Success => "0".to_string(),
                            UnsubAckReason::NoSubscriptionExisted => "17".to_string(),
                            other => format!("?{other:?}"),
                        })
                        .collect::<Vec<_>>()
                        .join(",")
                }
            ),
            Ack::PingResp(_) => "ACK PINGRESP".to_string(),
            other => format!("ACK ?{other:?}"),
        },
        Notification::Unschedule => "UNSCHEDULE".to_string(),
        Notification::Disconnect(d, _) => format!("DISCONNECT {}", reason_n(d.reason_code)),
        Notification::Shadow(s) => format!("SHADOW {} {}", hex(&s.topic), hex(&s.payload)),
        other => format!("?{other:?}"),
    }
}

fn show_oracle(line: &str) -> Option<String> {
    // "matches [2, 0]" | "retained [\"a/b\", \"c\"]" | "random 1"
    if let Some(rest) = line.strip_prefix("matches ") {
        let v: Vec<&str> = rest.trim_matches(|c| c == '[' || c == ']').split(", ").filter(|x| !x.is_empty()).collect();
        if v.len() < 2 {
            return None;
        }
        return Some(format!("ORACLE matches {}", v.join(",")));
    }
    if let Some(rest) = line.strip_prefix("retained ") {
        // Debug-printed strings: re-parse conservatively (topics in the generated ops never
        // contain quotes, backslashes or non-ASCII that Debug would escape differently)
        let inner = rest.trim_start_matches('[').trim_end_matches(']');
        let mut v = vec![];
        let mut cur = String::new();
        let mut in_s = false;
        let mut chars = inner.chars().peekable();
        while let Some(c) = chars.next() {
            match c {
                '"' => {
                    if in_s {
                        v.push(hex(cur.as_bytes()));
                        cur.clear();
                    }
                    in_s = !in_s;
                }
                '\\' if in_s => {
                    if let Some(n) = chars.next() {
                        match n {
                            'u' => {
                                // \u{XXXX}
                                let mut h = String::new();
                                chars.next();
                                for d in chars.by_ref() {
                                    if d == '}' {
                                        break;
                                    }
                                    h.push(d);
                                }
                                if let Some(ch) = u32::from_str_radix(&h, 16).ok().and_then(char::from_u32) {
                                    cur.push(ch);
                                }
                            }
                            'n' => cur.push('\n'),
                            't' => cur.push('\t'),
                            'r' => cur.push('\r'),
                            '0' => cur.push('\0'),
                            other => cur.push(other),
                        }
                    }
                }
                _ if in_s => cur.push(c),
                _ => {}
            }
        }
        if v.len() < 2 {
            return None;
        }
        return Some(format!("ORACLE retained {}", v.join(",")));
    }
    if let Some(rest) = line.strip_prefix("random ") {
        return Some(format!("ORACLE random {}", rest.trim()));
    }
    None
}

fn main() {
    silence_panics();
    let stdin = io::stdin();
    let mut out = BufWriter::new(io::stdout());
    let mut router: Option<Router> = None;
    let mut links: Vec<Link> = vec![];
    let mut dead = false;
    for line in stdin.lock().lines() {
        let line = line.unwrap();
        let t: Vec<&str> = line.split_whitespace().collect();
        if t.is_empty() || t[0] == "ORACLE" || t[0].starts_with('#') {
            continue;
        }
        if t[0] == "SEED" {
            verif::set_choice_seed(if t[1] == "-" { None } else { Some(t[1].parse().unwrap()) });
            writeln!(out, "OK").unwrap();
            out.flush().unwrap();
            continue;
        }
        if t[0] == "NEW" {
            let strategy = match t[5] {
                "rr" => Strategy::RoundRobin,
                "random" => Strategy::Random,
                _ => Strategy::Sticky,
            };
            let init: Vec<String> = t[7..].iter().map(|h| String::from_utf8(unhex(h)).unwrap()).collect();
            let config = RouterConfig {
                max_connections: t[1].parse().unwrap(),
                max_outgoing_packet_count: t[2].parse().unwrap(),
                max_segment_size: t[3].parse().unwrap(),
                max_segment_count: t[4].parse().unwrap(),
                custom_segment: None,
                initialized_filters: if init.is_empty() { None } else { Some(init) },
                shared_subscriptions_strategy: strategy,
            };
            links.clear();
            verif::take_oracle();
            match catch_unwind(AssertUnwindSafe(|| Router::new(0, config))) {
                Ok(r) => {
                    router = Some(r);
                    dead = false;
                    writeln!(out, "OK").unwrap();
                }
                Err(_) => {
                    router = None;
                    dead = true;
                    writeln!(out, "PANIC").unwrap();
                }
            }
            out.flush().unwrap();
            continue;
        }
        if dead || router.is_none() {
            writeln!(out, "DEAD").unwrap();
            out.flush().unwrap();
            continue;
        }
        let r = router.as_mut().unwrap();
        // X<OP>: the same event, marked in the op file as NOT sent by the addressed connection's
        // own link (a stale / foreign signal); the router cannot tell the difference
        let opname = t[0].strip_prefix('X').filter(|r| ["DATA", "READY", "DISCONNECT", "SHADOW"].contains(r)).unwrap_or(t[0]);
        let res = catch_unwind(AssertUnwindSafe(|| -> String {
            match opname {
                "CONNECT" => {
                    let client = String::from_utf8(unhex(t[1])).expect("client id must be utf8");
                    let (will, wprops) = if t[5] == "-" {
                        (None, None)
                    } else {
                        let w: Vec<&str> = t[5].split(',').collect();
                        let will = LastWill {
                            topic: Bytes::from(unhex(w[0])),
                            message: Bytes::from(unhex(w[1])),
                            qos: qos_of(w[2].parse().unwrap()),
                            retain: w[3] == "1",
                        };
                        let props = if w[4] == "x" {
                            None
                        } else {
                            // tag grammar: <n> | <n>d<delay>  (will delay interval in seconds)
                            let (tagn, delay) = match w[4].split_once('d') {
                                Some((a, d)) => (a, Some(d.parse::<u32>().unwrap())),
                                None => (w[4], None),
                            };
                            Some(LastWillProperties {
                                delay_interval: delay,
                                payload_format_indicator: None,
                                message_expiry_interval: None,
                                content_type: None,
                                response_topic: None,
                                correlation_data: None,
                                user_properties: tag_to_user(tagn.parse().unwrap()),
                            })
                        };
                        (Some(will), props)
                    };
                    let LinkParts { event, incoming, outgoing, wake } =
                        verif::new_link(&client, t[2] == "1", t[3] == "1", t[4].parse().unwrap(), will, wprops);
                    links.push(Link { incoming, outgoing, _wake: wake });
                    r.verif_event(0, event);
                    "OK".to_string()
                }
                "PUSH" => {
                    let k: usize = t[1].parse().unwrap();
                    match links.get(k) {
                        None => "NOLINK".to_string(),
                        Some(l) => {
                            l.incoming.lock().push_back(parse_packet(&t[2..]));
                            "OK".to_string()
                        }
                    }
                }
                "DATA" => {
                    r.verif_event(t[1].parse().unwrap(), Event::DeviceData);
                    "OK".to_string()
                }
                "CONSUME" => {
                    if r.verif_consume() { "SOME".to_string() } else { format!("NONE {}", r.verif_ready_len()) }
                }
                "DRAIN" => {
                    let k: usize = t[1].parse().unwrap();
                    match links.get(k) {
                        None => "NOLINK".to_string(),
                        Some(l) => {
                            let ns: Vec<Notification> = std::mem::take(&mut *l.outgoing.lock()).into_iter().collect();
                            format!("[{}]", ns.iter().map(show_notification).collect::<Vec<_>>().join(" | "))
                        }
                    }
                }
                "READY" => {
                    r.verif_event(t[1].parse().unwrap(), Event::Ready);
                    "OK".to_string()
                }
                "DISCONNECT" => {
                    r.verif_event(t[1].parse().unwrap(), Event::Disconnect);
                    "OK".to_string()
                }
                "SHADOW" => {
                    let f = String::from_utf8(unhex(t[2])).expect("filter must be utf8");
                    r.verif_event(t[1].parse().unwrap(), Event::Shadow(ShadowRequest { filter: f }));
                    "OK".to_string()
                }
                "WILL" => {
                    let c = String::from_utf8(unhex(t[1])).expect("client id must be utf8");
                    r.verif_event(0, Event::PublishWill((c, None)));
                    "OK".to_string()
                }
                "METERS" => {
                    r.verif_event(0, Event::SendMeters);
                    r.verif_event(0, Event::SendAlerts);
                    "OK".to_string()
                }
                "SNAP" => format!("SNAP {}", r.verif_snapshot()),
                x => panic!("bad op {x}"),
            }
        }));
        for o in verif::take_oracle() {
            if let Some(l) = show_oracle(&o) {
                writeln!(out, "{l}").unwrap();
            }
        }
        match res {
            Ok(s) => writeln!(out, "{s}").unwrap(),
            Err(_) => {
                dead = true;
                writeln!(out, "PANIC").unwrap();
            }
        }
        out.flush().unwrap();
    }
}
