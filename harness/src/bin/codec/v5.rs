//! MQTT 5 half of the codec correspondence driver (ops with <ver> = 5).
//! C = rumqttc::v5::mqttbytes::v5::Packet::{read,write,size}; B = rumqttd::protocol::v5::V5::{read_mut,write}.
//! Canon5 mirrors coq/Codec/V5.v `packet5`; a property section is the list of (id, value) in the
//! order of the struct's fields (= the order the encoders write them); reason codes are MQTT 5 wire
//! codes (tables below).  Conversions are field-by-field copies (trusted base).
//! AUTH: rumqttd has none; rumqttc's `AuthReasonCode` is not nameable from outside the crate, so an
//! `Auth` value cannot be constructed here and `Packet::read` has no arm for it.
use super::*;
use bytes::{Bytes, BytesMut};
use rumqttc::v5::mqttbytes as c5m;
use rumqttc::v5::mqttbytes::v5 as c5;
use rumqttd::protocol as b;
use rumqttd::protocol::Protocol as _;

#[derive(Clone, Debug, PartialEq)]
pub enum PVal {
    Byte(u8),
    U16(u16),
    U32(u32),
    Var(usize),
    Str(Vec<u8>),
    Bin(Vec<u8>),
    Pair(Vec<u8>, Vec<u8>),
}
pub type Props = Option<Vec<(u8, PVal)>>;

#[derive(Clone, Copy, PartialEq)]
enum Kind {
    Byte,
    U16,
    U32,
    Var,
    Str,
    Bin,
    Pair,
}

fn kind_of_id(id: u8) -> Option<Kind> {
    Some(match id {
        1 | 23 | 25 | 36 | 37 | 40 | 41 | 42 => Kind::Byte,
        19 | 33 | 34 | 35 => Kind::U16,
        2 | 17 | 24 | 39 => Kind::U32,
        11 => Kind::Var,
        3 | 8 | 18 | 21 | 26 | 28 | 31 => Kind::Str,
        9 | 22 => Kind::Bin,
        38 => Kind::Pair,
        _ => return None,
    })
}

fn parse_props(s: &str) -> Props {
    match s {
        "none" => None,
        "empty" => Some(vec![]),
        _ => Some(
            s.split(';')
                .map(|item| {
                    let (id, v) = item.split_once('=').expect("bad property");
                    let id: u8 = num(id);
                    let pv = match kind_of_id(id).expect("unknown property id in op") {
                        Kind::Byte => PVal::Byte(num(v)),
                        Kind::U16 => PVal::U16(num(v)),
                        Kind::U32 => PVal::U32(num(v)),
                        Kind::Var => PVal::Var(num(v)),
                        Kind::Str => PVal::Str(unhex(v)),
                        Kind::Bin => PVal::Bin(unhex(v)),
                        Kind::Pair => {
                            let (k, x) = v.split_once('~').expect("bad user property");
                            PVal::Pair(unhex(k), unhex(x))
                        }
                    };
                    (id, pv)
                })
                .collect(),
        ),
    }
}

fn show_props(p: &Props) -> String {
    match p {
        None => "none".into(),
        Some(l) if l.is_empty() => "empty".into(),
        Some(l) => l
            .iter()
            .map(|(id, v)| {
                format!(
                    "{}={}",
                    id,
                    match v {
                        PVal::Byte(x) => x.to_string(),
                        PVal::U16(x) => x.to_string(),
                        PVal::U32(x) => x.to_string(),
                        PVal::Var(x) => x.to_string(),
                        PVal::Str(x) | PVal::Bin(x) => hex(x),
                        PVal::Pair(k, x) => format!("{}~{}", hex(k), hex(x)),
                    }
                )
            })
            .collect::<Vec<_>>()
            .join(";"),
    }
}

/// The (id, value) list as the fields of a struct: Option fields take the last occurrence,
/// Vec fields all of them; an id outside `allowed` (or a non-UTF-8 String) is unrepresentable.
struct Bag<'a> {
    l: &'a [(u8, PVal)],
}
impl<'a> Bag<'a> {
    fn new(l: &'a [(u8, PVal)], allowed: &[u8]) -> Result<Self, Unrep> {
        if l.iter().all(|(id, _)| allowed.contains(id)) {
            Ok(Bag { l })
        } else {
            Err(Unrep)
        }
    }
    fn last(&self, id: u8) -> Option<&'a PVal> {
        self.l.iter().rev().find(|(i, _)| *i == id).map(|(_, v)| v)
    }
    fn u8(&self, id: u8) -> Option<u8> {
        match self.last(id) {
            Some(PVal::Byte(x)) => Some(*x),
            _ => None,
        }
    }
    fn u16(&self, id: u8) -> Option<u16> {
        match self.last(id) {
            Some(PVal::U16(x)) => Some(*x),
            _ => None,
        }
    }
    fn u32(&self, id: u8) -> Option<u32> {
        match self.last(id) {
            Some(PVal::U32(x)) => Some(*x),
            _ => None,
        }
    }
    fn var(&self, id: u8) -> Option<usize> {
        match self.last(id) {
            Some(PVal::Var(x)) => Some(*x),
            _ => None,
        }
    }
    fn vars(&self, id: u8) -> Vec<usize> {
        self.l.iter().filter(|(i, _)| *i == id).filter_map(|(_, v)| if let PVal::Var(x) = v { Some(*x) } else { None }).collect()
    }
    fn string(&self, id: u8) -> Result<Option<String>, Unrep> {
        match self.last(id) {
            Some(PVal::Str(x)) => Ok(Some(s(x)?)),
            _ => Ok(None),
        }
    }
    fn bin(&self, id: u8) -> Option<Bytes> {
        match self.last(id) {
            Some(PVal::Bin(x)) => Some(Bytes::from(x.clone())),
            _ => None,
        }
    }
    fn pairs(&self) -> Result<Vec<(String, String)>, Unrep> {
        let mut out = vec![];
        for (i, v) in self.l {
            if *i == 38 {
                if let PVal::Pair(k, x) = v {
                    out.push((s(k)?, s(x)?));
                }
            }
        }
        Ok(out)
    }
}

fn st(id: u8, v: &Option<String>, out: &mut Vec<(u8, PVal)>) {
    if let Some(x) = v {
        out.push((id, PVal::Str(x.clone().into_bytes())));
    }
}
fn bn(id: u8, v: &Option<Bytes>, out: &mut Vec<(u8, PVal)>) {
    if let Some(x) = v {
        out.push((id, PVal::Bin(x.to_vec())));
    }
}
fn p8(id: u8, v: Option<u8>, out: &mut Vec<(u8, PVal)>) {
    if let Some(x) = v {
        out.push((id, PVal::Byte(x)));
    }
}
fn p16(id: u8, v: Option<u16>, out: &mut Vec<(u8, PVal)>) {
    if let Some(x) = v {
        out.push((id, PVal::U16(x)));
    }
}
fn p32(id: u8, v: Option<u32>, out: &mut Vec<(u8, PVal)>) {
    if let Some(x) = v {
        out.push((id, PVal::U32(x)));
    }
}
fn up(v: &[(String, String)], out: &mut Vec<(u8, PVal)>) {
    for (k, x) in v {
        out.push((38, PVal::Pair(k.clone().into_bytes(), x.clone().into_bytes())));
    }
}

const T_CONNECT: [u8; 9] = [17, 33, 39, 34, 25, 23, 38, 21, 22];
const T_WILL: [u8; 7] = [24, 1, 2, 3, 8, 9, 38];
const T_CONNACK: [u8; 17] = [17, 33, 36, 37, 39, 18, 34, 31, 38, 40, 41, 42, 19, 26, 28, 21, 22];
const T_PUBLISH: [u8; 8] = [1, 2, 35, 8, 9, 38, 11, 3];
const T_ACK: [u8; 2] = [31, 38];
const T_SUBSCRIBE: [u8; 2] = [11, 38];
const T_UNSUBSCRIBE: [u8; 1] = [38];
const T_DISCONNECT: [u8; 4] = [17, 31, 38, 28];

/// property struct <-> list, once per struct type of each crate (same field names in both crates)
macro_rules! props_impls {
    ($m:ident, $($path:tt)+) => {
        pub mod $m {
            use super::*;
            use $($path)+ as t;
            pub fn connect_to(p: &Props) -> Result<Option<t::ConnectProperties>, Unrep> {
                let Some(l) = p else { return Ok(None) };
                let g = Bag::new(l, &T_CONNECT)?;
                Ok(Some(t::ConnectProperties {
                    session_expiry_interval: g.u32(17),
                    receive_maximum: g.u16(33),
                    max_packet_size: g.u32(39),
                    topic_alias_max: g.u16(34),
                    request_response_info: g.u8(25),
                    request_problem_info: g.u8(23),
                    user_properties: g.pairs()?,
                    authentication_method: g.string(21)?,
                    authentication_data: g.bin(22),
                }))
            }
            pub fn connect_from(p: &Option<t::ConnectProperties>) -> Props {
                p.as_ref().map(|x| {
                    let mut o = vec![];
                    p32(17, x.session_expiry_interval, &mut o);
                    p16(33, x.receive_maximum, &mut o);
                    p32(39, x.max_packet_size, &mut o);
                    p16(34, x.topic_alias_max, &mut o);
                    p8(25, x.request_response_info, &mut o);
                    p8(23, x.request_problem_info, &mut o);
                    up(&x.user_properties, &mut o);
                    st(21, &x.authentication_method, &mut o);
                    bn(22, &x.authentication_data, &mut o);
                    o
                })
            }
            pub fn will_to(p: &Props) -> Result<Option<t::LastWillProperties>, Unrep> {
                let Some(l) = p else { return Ok(None) };
                let g = Bag::new(l, &T_WILL)?;
                Ok(Some(t::LastWillProperties {
                    delay_interval: g.u32(24),
                    payload_format_indicator: g.u8(1),
                    message_expiry_interval: g.u32(2),
                    content_type: g.string(3)?,
                    response_topic: g.string(8)?,
                    correlation_data: g.bin(9),
                    user_properties: g.pairs()?,
                }))
            }
            pub fn will_from(p: &Option<t::LastWillProperties>) -> Props {
                p.as_ref().map(|x| {
                    let mut o = vec![];
                    p32(24, x.delay_interval, &mut o);
                    p8(1, x.payload_format_indicator, &mut o);
                    p32(2, x.message_expiry_interval, &mut o);
                    st(3, &x.content_type, &mut o);
                    st(8, &x.response_topic, &mut o);
                    bn(9, &x.correlation_data, &mut o);
                    up(&x.user_properties, &mut o);
                    o
                })
            }
            pub fn connack_to(p: &Props) -> Result<Option<t::ConnAckProperties>, Unrep> {
                let Some(l) = p else { return Ok(None) };
                let g = Bag::new(l, &T_CONNACK)?;
                Ok(Some(t::ConnAckProperties {
                    session_expiry_interval: g.u32(17),
                    receive_max: g.u16(33),
                    max_qos: g.u8(36),
                    retain_available: g.u8(37),
                    max_packet_size: g.u32(39),
                    assigned_client_identifier: g.string(18)?,
                    topic_alias_max: g.u16(34),
                    reason_string: g.string(31)?,
                    user_properties: g.pairs()?,
                    wildcard_subscription_available: g.u8(40),
                    subscription_identifiers_available: g.u8(41),
                    shared_subscription_available: g.u8(42),
                    server_keep_alive: g.u16(19),
                    response_information: g.string(26)?,
                    server_reference: g.string(28)?,
                    authentication_method: g.string(21)?,
                    authentication_data: g.bin(22),
                }))
            }
            pub fn connack_from(p: &Option<t::ConnAckProperties>) -> Props {
                p.as_ref().map(|x| {
                    let mut o = vec![];
                    p32(17, x.session_expiry_interval, &mut o);
                    p16(33, x.receive_max, &mut o);
                    p8(36, x.max_qos, &mut o);
                    p8(37, x.retain_available, &mut o);
                    p32(39, x.max_packet_size, &mut o);
                    st(18, &x.assigned_client_identifier, &mut o);
                    p16(34, x.topic_alias_max, &mut o);
                    st(31, &x.reason_string, &mut o);
                    up(&x.user_properties, &mut o);
                    p8(40, x.wildcard_subscription_available, &mut o);
                    p8(41, x.subscription_identifiers_available, &mut o);
                    p8(42, x.shared_subscription_available, &mut o);
                    p16(19, x.server_keep_alive, &mut o);
                    st(26, &x.response_information, &mut o);
                    st(28, &x.server_reference, &mut o);
                    st(21, &x.authentication_method, &mut o);
                    bn(22, &x.authentication_data, &mut o);
                    o
                })
            }
            pub fn publish_to(p: &Props) -> Result<Option<t::PublishProperties>, Unrep> {
                let Some(l) = p else { return Ok(None) };
                let g = Bag::new(l, &T_PUBLISH)?;
                Ok(Some(t::PublishProperties {
                    payload_format_indicator: g.u8(1),
                    message_expiry_interval: g.u32(2),
                    topic_alias: g.u16(35),
                    response_topic: g.string(8)?,
                    correlation_data: g.bin(9),
                    user_properties: g.pairs()?,
                    subscription_identifiers: g.vars(11),
                    content_type: g.string(3)?,
                }))
            }
            pub fn publish_from(p: &Option<t::PublishProperties>) -> Props {
                p.as_ref().map(|x| {
                    let mut o = vec![];
                    p8(1, x.payload_format_indicator, &mut o);
                    p32(2, x.message_expiry_interval, &mut o);
                    p16(35, x.topic_alias, &mut o);
                    st(8, &x.response_topic, &mut o);
                    bn(9, &x.correlation_data, &mut o);
                    up(&x.user_properties, &mut o);
                    for id in x.subscription_identifiers.iter() {
                        o.push((11, PVal::Var(*id)));
                    }
                    st(3, &x.content_type, &mut o);
                    o
                })
            }
            pub fn subscribe_to(p: &Props) -> Result<Option<t::SubscribeProperties>, Unrep> {
                let Some(l) = p else { return Ok(None) };
                let g = Bag::new(l, &T_SUBSCRIBE)?;
                Ok(Some(t::SubscribeProperties { id: g.var(11), user_properties: g.pairs()? }))
            }
            pub fn subscribe_from(p: &Option<t::SubscribeProperties>) -> Props {
                p.as_ref().map(|x| {
                    let mut o = vec![];
                    if let Some(id) = x.id {
                        o.push((11, PVal::Var(id)));
                    }
                    up(&x.user_properties, &mut o);
                    o
                })
            }
            pub fn unsubscribe_to(p: &Props) -> Result<Option<t::UnsubscribeProperties>, Unrep> {
                let Some(l) = p else { return Ok(None) };
                let g = Bag::new(l, &T_UNSUBSCRIBE)?;
                Ok(Some(t::UnsubscribeProperties { user_properties: g.pairs()? }))
            }
            pub fn unsubscribe_from(p: &Option<t::UnsubscribeProperties>) -> Props {
                p.as_ref().map(|x| {
                    let mut o = vec![];
                    up(&x.user_properties, &mut o);
                    o
                })
            }
            pub fn disconnect_to(p: &Props) -> Result<Option<t::DisconnectProperties>, Unrep> {
                let Some(l) = p else { return Ok(None) };
                let g = Bag::new(l, &T_DISCONNECT)?;
                Ok(Some(t::DisconnectProperties {
                    session_expiry_interval: g.u32(17),
                    reason_string: g.string(31)?,
                    user_properties: g.pairs()?,
                    server_reference: g.string(28)?,
                }))
            }
            pub fn disconnect_from(p: &Option<t::DisconnectProperties>) -> Props {
                p.as_ref().map(|x| {
                    let mut o = vec![];
                    p32(17, x.session_expiry_interval, &mut o);
                    st(31, &x.reason_string, &mut o);
                    up(&x.user_properties, &mut o);
                    st(28, &x.server_reference, &mut o);
                    o
                })
            }
        }
    };
}
props_impls!(cp, rumqttc::v5::mqttbytes::v5);
props_impls!(bp, rumqttd::protocol);

/// the six "reason string + user properties" structs of each crate
macro_rules! ack_props {
    ($to:ident, $from:ident, $ty:ty) => {
        fn $to(p: &Props) -> Result<Option<$ty>, Unrep> {
            type T = $ty;
            let Some(l) = p else { return Ok(None) };
            let g = Bag::new(l, &T_ACK)?;
            Ok(Some(T { reason_string: g.string(31)?, user_properties: g.pairs()? }))
        }
        fn $from(p: &Option<$ty>) -> Props {
            p.as_ref().map(|x| {
                let mut o = vec![];
                st(31, &x.reason_string, &mut o);
                up(&x.user_properties, &mut o);
                o
            })
        }
    };
}
ack_props!(c_puback_to, c_puback_from, c5::PubAckProperties);
ack_props!(c_pubrec_to, c_pubrec_from, c5::PubRecProperties);
ack_props!(c_pubrel_to, c_pubrel_from, c5::PubRelProperties);
ack_props!(c_pubcomp_to, c_pubcomp_from, c5::PubCompProperties);
ack_props!(c_suback_to, c_suback_from, c5::SubAckProperties);
ack_props!(c_unsuback_to, c_unsuback_from, c5::UnsubAckProperties);
ack_props!(b_puback_to, b_puback_from, b::PubAckProperties);
ack_props!(b_pubrec_to, b_pubrec_from, b::PubRecProperties);
ack_props!(b_pubrel_to, b_pubrel_from, b::PubRelProperties);
ack_props!(b_pubcomp_to, b_pubcomp_from, b::PubCompProperties);
ack_props!(b_suback_to, b_suback_from, b::SubAckProperties);
ack_props!(b_unsuback_to, b_unsuback_from, b::UnsubAckProperties);

// ------------------------------------------------------------------ canonical packet

#[derive(Clone, Debug, PartialEq)]
pub struct Will5 {
    topic: Vec<u8>,
    message: Vec<u8>,
    qos: u8,
    retain: bool,
    props: Props,
}

#[derive(Clone, Debug, PartialEq)]
pub enum Canon5 {
    Connect { ka: u16, id: Vec<u8>, clean: bool, props: Props, will: Option<Will5>, login: Option<(Vec<u8>, Vec<u8>)> },
    ConnAck { sp: bool, code: u8, props: Props },
    Publish { dup: bool, qos: u8, retain: bool, topic: Vec<u8>, pkid: u16, payload: Vec<u8>, props: Props },
    PubAck { pkid: u16, reason: u8, props: Props },
    PubRec { pkid: u16, reason: u8, props: Props },
    PubRel { pkid: u16, reason: u8, props: Props },
    PubComp { pkid: u16, reason: u8, props: Props },
    Subscribe { pkid: u16, filters: Vec<(Vec<u8>, u8, bool, bool, u8)>, props: Props },
    SubAck { pkid: u16, codes: Vec<Rc_>, props: Props },
    Unsubscribe { pkid: u16, topics: Vec<Vec<u8>>, props: Props },
    UnsubAck { pkid: u16, reasons: Vec<u8>, props: Props },
    PingReq,
    PingResp,
    Disconnect { reason: u8, props: Props },
}

pub fn parse_canon5(t: &[&str]) -> Canon5 {
    match t[0] {
        "CONNECT" => {
            let will = match kv(t[5], "will") {
                "none" => None,
                w => {
                    let p: Vec<&str> = w.split(':').collect();
                    Some(Will5 { topic: unhex(p[0]), message: unhex(p[1]), qos: num(p[2]), retain: bit(p[3]), props: parse_props(p[4]) })
                }
            };
            let login = match kv(t[6], "login") {
                "none" => None,
                l => {
                    let p: Vec<&str> = l.split(':').collect();
                    Some((unhex(p[0]), unhex(p[1])))
                }
            };
            Canon5::Connect {
                ka: num(kv(t[1], "ka")),
                id: unhex(kv(t[2], "id")),
                clean: bit(kv(t[3], "clean")),
                props: parse_props(kv(t[4], "props")),
                will,
                login,
            }
        }
        "CONNACK" => Canon5::ConnAck { sp: bit(kv(t[1], "sp")), code: num(kv(t[2], "code")), props: parse_props(kv(t[3], "props")) },
        "PUBLISH" => Canon5::Publish {
            dup: bit(kv(t[1], "dup")),
            qos: num(kv(t[2], "qos")),
            retain: bit(kv(t[3], "retain")),
            topic: unhex(kv(t[4], "topic")),
            pkid: num(kv(t[5], "pkid")),
            payload: unhex(kv(t[6], "payload")),
            props: parse_props(kv(t[7], "props")),
        },
        "PUBACK" => Canon5::PubAck { pkid: num(kv(t[1], "pkid")), reason: num(kv(t[2], "reason")), props: parse_props(kv(t[3], "props")) },
        "PUBREC" => Canon5::PubRec { pkid: num(kv(t[1], "pkid")), reason: num(kv(t[2], "reason")), props: parse_props(kv(t[3], "props")) },
        "PUBREL" => Canon5::PubRel { pkid: num(kv(t[1], "pkid")), reason: num(kv(t[2], "reason")), props: parse_props(kv(t[3], "props")) },
        "PUBCOMP" => Canon5::PubComp { pkid: num(kv(t[1], "pkid")), reason: num(kv(t[2], "reason")), props: parse_props(kv(t[3], "props")) },
        "SUBSCRIBE" => Canon5::Subscribe {
            pkid: num(kv(t[1], "pkid")),
            filters: list(kv(t[2], "filters"), |f| {
                let p: Vec<&str> = f.split(':').collect();
                (unhex(p[0]), num(p[1]), bit(p[2]), bit(p[3]), num(p[4]))
            }),
            props: parse_props(kv(t[3], "props")),
        },
        "SUBACK" => Canon5::SubAck {
            pkid: num(kv(t[1], "pkid")),
            codes: list(kv(t[2], "codes"), |c| match c {
                "S0" => Rc_::Success(0),
                "S1" => Rc_::Success(1),
                "S2" => Rc_::Success(2),
                "F" => Rc_::Failure,
                "Q0" => Rc_::QoS(0),
                "Q1" => Rc_::QoS(1),
                "Q2" => Rc_::QoS(2),
                "U" => Rc_::Unspecified,
                o => Rc_::Other(num(o.strip_prefix('O').expect("bad return code"))),
            }),
            props: parse_props(kv(t[3], "props")),
        },
        "UNSUBSCRIBE" => Canon5::Unsubscribe { pkid: num(kv(t[1], "pkid")), topics: list(kv(t[2], "topics"), unhex), props: parse_props(kv(t[3], "props")) },
        "UNSUBACK" => Canon5::UnsubAck { pkid: num(kv(t[1], "pkid")), reasons: list(kv(t[2], "reasons"), |r| num(r)), props: parse_props(kv(t[3], "props")) },
        "PINGREQ" => Canon5::PingReq,
        "PINGRESP" => Canon5::PingResp,
        "DISCONNECT" => Canon5::Disconnect { reason: num(kv(t[1], "reason")), props: parse_props(kv(t[2], "props")) },
        other => panic!("bad v5 packet {other}"),
    }
}

fn show_rc(c: &Rc_) -> String {
    match c {
        Rc_::Success(q) => format!("S{q}"),
        Rc_::Failure => "F".into(),
        Rc_::QoS(q) => format!("Q{q}"),
        Rc_::Unspecified => "U".into(),
        Rc_::Other(x) => format!("O{x}"),
    }
}

pub fn show_canon5(p: &Canon5) -> String {
    match p {
        Canon5::Connect { ka, id, clean, props, will, login } => format!(
            "CONNECT ka={} id={} clean={} props={} will={} login={}",
            ka,
            hex(id),
            *clean as u8,
            show_props(props),
            match will {
                None => "none".to_string(),
                Some(w) => format!("{}:{}:{}:{}:{}", hex(&w.topic), hex(&w.message), w.qos, w.retain as u8, show_props(&w.props)),
            },
            match login {
                None => "none".to_string(),
                Some((u, p)) => format!("{}:{}", hex(u), hex(p)),
            }
        ),
        Canon5::ConnAck { sp, code, props } => format!("CONNACK sp={} code={} props={}", *sp as u8, code, show_props(props)),
        Canon5::Publish { dup, qos, retain, topic, pkid, payload, props } => format!(
            "PUBLISH dup={} qos={} retain={} topic={} pkid={} payload={} props={}",
            *dup as u8,
            qos,
            *retain as u8,
            hex(topic),
            pkid,
            hex(payload),
            show_props(props)
        ),
        Canon5::PubAck { pkid, reason, props } => format!("PUBACK pkid={pkid} reason={reason} props={}", show_props(props)),
        Canon5::PubRec { pkid, reason, props } => format!("PUBREC pkid={pkid} reason={reason} props={}", show_props(props)),
        Canon5::PubRel { pkid, reason, props } => format!("PUBREL pkid={pkid} reason={reason} props={}", show_props(props)),
        Canon5::PubComp { pkid, reason, props } => format!("PUBCOMP pkid={pkid} reason={reason} props={}", show_props(props)),
        Canon5::Subscribe { pkid, filters, props } => format!(
            "SUBSCRIBE pkid={} filters={} props={}",
            pkid,
            show_list(filters, |(p, q, nl, pr, r)| format!("{}:{}:{}:{}:{}", hex(p), q, *nl as u8, *pr as u8, r)),
            show_props(props)
        ),
        Canon5::SubAck { pkid, codes, props } => format!("SUBACK pkid={} codes={} props={}", pkid, show_list(codes, show_rc), show_props(props)),
        Canon5::Unsubscribe { pkid, topics, props } => {
            format!("UNSUBSCRIBE pkid={} topics={} props={}", pkid, show_list(topics, |t| hex(t)), show_props(props))
        }
        Canon5::UnsubAck { pkid, reasons, props } => {
            format!("UNSUBACK pkid={} reasons={} props={}", pkid, show_list(reasons, |r| r.to_string()), show_props(props))
        }
        Canon5::PingReq => "PINGREQ".into(),
        Canon5::PingResp => "PINGRESP".into(),
        Canon5::Disconnect { reason, props } => format!("DISCONNECT reason={} props={}", reason, show_props(props)),
    }
}

// ------------------------------------------------------------------ reason code tables (wire code, variant)

fn code_to<T: Copy>(t: &[(u8, T)], c: u8) -> Result<T, Unrep> {
    t.iter().find(|(k, _)| *k == c).map(|(_, v)| *v).ok_or(Unrep)
}
fn code_from<T: PartialEq>(t: &[(u8, T)], v: &T) -> u8 {
    t.iter().find(|(_, x)| x == v).expect("variant missing from harness table").0
}

macro_rules! tables {
    ($m:ident, $($path:tt)+) => {
        pub mod $m {
            use $($path)+ as t;
            pub const PUBACK: [(u8, t::PubAckReason); 9] = [
                (0, t::PubAckReason::Success), (16, t::PubAckReason::NoMatchingSubscribers), (128, t::PubAckReason::UnspecifiedError),
                (131, t::PubAckReason::ImplementationSpecificError), (135, t::PubAckReason::NotAuthorized), (144, t::PubAckReason::TopicNameInvalid),
                (145, t::PubAckReason::PacketIdentifierInUse), (151, t::PubAckReason::QuotaExceeded), (153, t::PubAckReason::PayloadFormatInvalid)];
            pub const PUBREC: [(u8, t::PubRecReason); 9] = [
                (0, t::PubRecReason::Success), (16, t::PubRecReason::NoMatchingSubscribers), (128, t::PubRecReason::UnspecifiedError),
                (131, t::PubRecReason::ImplementationSpecificError), (135, t::PubRecReason::NotAuthorized), (144, t::PubRecReason::TopicNameInvalid),
                (145, t::PubRecReason::PacketIdentifierInUse), (151, t::PubRecReason::QuotaExceeded), (153, t::PubRecReason::PayloadFormatInvalid)];
            pub const PUBREL: [(u8, t::PubRelReason); 2] = [(0, t::PubRelReason::Success), (146, t::PubRelReason::PacketIdentifierNotFound)];
            pub const PUBCOMP: [(u8, t::PubCompReason); 2] = [(0, t::PubCompReason::Success), (146, t::PubCompReason::PacketIdentifierNotFound)];
            pub const UNSUBACK: [(u8, t::UnsubAckReason); 7] = [
                (0, t::UnsubAckReason::Success), (17, t::UnsubAckReason::NoSubscriptionExisted), (128, t::UnsubAckReason::UnspecifiedError),
                (131, t::UnsubAckReason::ImplementationSpecificError), (135, t::UnsubAckReason::NotAuthorized),
                (143, t::UnsubAckReason::TopicFilterInvalid), (145, t::UnsubAckReason::PacketIdentifierInUse)];
            use t::DisconnectReasonCode as D;
            pub const DISCONNECT: [(u8, D); 29] = [
                (0, D::NormalDisconnection), (4, D::DisconnectWithWillMessage), (128, D::UnspecifiedError), (129, D::MalformedPacket),
                (130, D::ProtocolError), (131, D::ImplementationSpecificError), (135, D::NotAuthorized), (137, D::ServerBusy),
                (139, D::ServerShuttingDown), (141, D::KeepAliveTimeout), (142, D::SessionTakenOver), (143, D::TopicFilterInvalid),
                (144, D::TopicNameInvalid), (147, D::ReceiveMaximumExceeded), (148, D::TopicAliasInvalid), (149, D::PacketTooLarge),
                (150, D::MessageRateTooHigh), (151, D::QuotaExceeded), (152, D::AdministrativeAction), (153, D::PayloadFormatInvalid),
                (154, D::RetainNotSupported), (155, D::QoSNotSupported), (156, D::UseAnotherServer), (157, D::ServerMoved),
                (158, D::SharedSubscriptionNotSupported), (159, D::ConnectionRateExceeded), (160, D::MaximumConnectTime),
                (161, D::SubscriptionIdentifiersNotSupported), (162, D::WildcardSubscriptionsNotSupported)];
            use t::ConnectReturnCode as K;
            /// v5 wire codes; the v4-only variants get 1 | 2 | 3 (appended per crate below)
            pub const CONNACK: [(u8, K); 22] = [
                (0, K::Success), (128, K::UnspecifiedError), (129, K::MalformedPacket), (130, K::ProtocolError),
                (131, K::ImplementationSpecificError), (132, K::UnsupportedProtocolVersion), (133, K::ClientIdentifierNotValid),
                (134, K::BadUserNamePassword), (135, K::NotAuthorized), (136, K::ServerUnavailable), (137, K::ServerBusy), (138, K::Banned),
                (140, K::BadAuthenticationMethod), (144, K::TopicNameInvalid), (149, K::PacketTooLarge), (151, K::QuotaExceeded),
                (153, K::PayloadFormatInvalid), (154, K::RetainNotSupported), (155, K::QoSNotSupported), (156, K::UseAnotherServer),
                (157, K::ServerMoved), (159, K::ConnectionRateExceeded)];
            use t::SubscribeReasonCode as S;
            pub const SUB_OTHER: [(u8, S); 8] = [
                (131, S::ImplementationSpecific), (135, S::NotAuthorized), (143, S::TopicFilterInvalid), (145, S::PkidInUse),
                (151, S::QuotaExceeded), (158, S::SharedSubscriptionsNotSupported), (161, S::SubscriptionIdNotSupported),
                (162, S::WildcardSubscriptionsNotSupported)];
            pub const RULES: [t::RetainForwardRule; 3] = [t::RetainForwardRule::OnEverySubscribe, t::RetainForwardRule::OnNewSubscribe, t::RetainForwardRule::Never];
        }
    };
}
tables!(ct, rumqttc::v5::mqttbytes::v5);
tables!(bt, rumqttd::protocol);

const C_V4ONLY: [(u8, c5::ConnectReturnCode); 3] = [
    (1, c5::ConnectReturnCode::RefusedProtocolVersion),
    (2, c5::ConnectReturnCode::BadClientId),
    (3, c5::ConnectReturnCode::ServiceUnavailable),
];
const B_V4ONLY: [(u8, b::ConnectReturnCode); 2] =
    [(1, b::ConnectReturnCode::RefusedProtocolVersion), (3, b::ConnectReturnCode::ServiceUnavailable)];

// ------------------------------------------------------------------ client <-> canonical

fn c_qos5(q: u8) -> c5m::QoS {
    match q {
        0 => c5m::QoS::AtMostOnce,
        1 => c5m::QoS::AtLeastOnce,
        2 => c5m::QoS::ExactlyOnce,
        _ => panic!("bad qos in op"),
    }
}

fn to_client5(p: &Canon5) -> Result<c5::Packet, Unrep> {
    Ok(match p {
        Canon5::Connect { ka, id, clean, props, will, login } => c5::Packet::Connect(
            c5::Connect { keep_alive: *ka, client_id: s(id)?, clean_start: *clean, properties: cp::connect_to(props)? },
            match will {
                None => None,
                Some(w) => Some(c5::LastWill {
                    topic: Bytes::from(w.topic.clone()),
                    message: Bytes::from(w.message.clone()),
                    qos: c_qos5(w.qos),
                    retain: w.retain,
                    properties: cp::will_to(&w.props)?,
                }),
            },
            match login {
                None => None,
                Some((u, p)) => Some(c5::Login { username: s(u)?, password: s(p)? }),
            },
        ),
        Canon5::ConnAck { sp, code, props } => c5::Packet::ConnAck(c5::ConnAck {
            session_present: *sp,
            code: code_to(&ct::CONNACK, *code).or_else(|_| code_to(&C_V4ONLY, *code))?,
            properties: cp::connack_to(props)?,
        }),
        Canon5::Publish { dup, qos, retain, topic, pkid, payload, props } => c5::Packet::Publish(c5::Publish {
            dup: *dup,
            qos: c_qos5(*qos),
            retain: *retain,
            topic: Bytes::from(topic.clone()),
            pkid: *pkid,
            payload: Bytes::from(payload.clone()),
            properties: cp::publish_to(props)?,
        }),
        Canon5::PubAck { pkid, reason, props } => {
            c5::Packet::PubAck(c5::PubAck { pkid: *pkid, reason: code_to(&ct::PUBACK, *reason)?, properties: c_puback_to(props)? })
        }
        Canon5::PubRec { pkid, reason, props } => {
            c5::Packet::PubRec(c5::PubRec { pkid: *pkid, reason: code_to(&ct::PUBREC, *reason)?, properties: c_pubrec_to(props)? })
        }
        Canon5::PubRel { pkid, reason, props } => {
            c5::Packet::PubRel(c5::PubRel { pkid: *pkid, reason: code_to(&ct::PUBREL, *reason)?, properties: c_pubrel_to(props)? })
        }
        Canon5::PubComp { pkid, reason, props } => {
            c5::Packet::PubComp(c5::PubComp { pkid: *pkid, reason: code_to(&ct::PUBCOMP, *reason)?, properties: c_pubcomp_to(props)? })
        }
        Canon5::Subscribe { pkid, filters, props } => {
            let mut fs = vec![];
            for (path, q, nl, pr, rule) in filters {
                fs.push(c5::Filter {
                    path: s(path)?,
                    qos: c_qos5(*q),
                    nolocal: *nl,
                    preserve_retain: *pr,
                    retain_forward_rule: ct::RULES.get(*rule as usize).ok_or(Unrep)?.clone(),
                });
            }
            c5::Packet::Subscribe(c5::Subscribe { pkid: *pkid, filters: fs, properties: cp::subscribe_to(props)? })
        }
        Canon5::SubAck { pkid, codes, props } => {
            let mut cs = vec![];
            for code in codes {
                cs.push(match code {
                    Rc_::Success(q) => c5::SubscribeReasonCode::Success(c_qos5(*q)),
                    Rc_::Failure => c5::SubscribeReasonCode::Failure,
                    Rc_::Unspecified => c5::SubscribeReasonCode::Unspecified,
                    Rc_::Other(x) => code_to(&ct::SUB_OTHER, *x)?,
                    Rc_::QoS(_) => return Err(Unrep),
                });
            }
            c5::Packet::SubAck(c5::SubAck { pkid: *pkid, return_codes: cs, properties: c_suback_to(props)? })
        }
        Canon5::Unsubscribe { pkid, topics, props } => {
            let mut ts = vec![];
            for t in topics {
                ts.push(s(t)?);
            }
            c5::Packet::Unsubscribe(c5::Unsubscribe { pkid: *pkid, filters: ts, properties: cp::unsubscribe_to(props)? })
        }
        Canon5::UnsubAck { pkid, reasons, props } => {
            let mut rs = vec![];
            for r in reasons {
                rs.push(code_to(&ct::UNSUBACK, *r)?);
            }
            c5::Packet::UnsubAck(c5::UnsubAck { pkid: *pkid, reasons: rs, properties: c_unsuback_to(props)? })
        }
        Canon5::PingReq => c5::Packet::PingReq(c5::PingReq),
        Canon5::PingResp => c5::Packet::PingResp(c5::PingResp),
        Canon5::Disconnect { reason, props } => c5::Packet::Disconnect(c5::Disconnect {
            reason_code: code_to(&ct::DISCONNECT, *reason)?,
            properties: cp::disconnect_to(props)?,
        }),
    })
}

fn from_client5(p: c5::Packet) -> Canon5 {
    match p {
        c5::Packet::Connect(x, will, login) => Canon5::Connect {
            ka: x.keep_alive,
            id: x.client_id.clone().into_bytes(),
            clean: x.clean_start,
            props: cp::connect_from(&x.properties),
            will: will.map(|w| Will5 {
                topic: w.topic.to_vec(),
                message: w.message.to_vec(),
                qos: w.qos as u8,
                retain: w.retain,
                props: cp::will_from(&w.properties),
            }),
            login: login.map(|l| (l.username.into_bytes(), l.password.into_bytes())),
        },
        c5::Packet::ConnAck(x) => Canon5::ConnAck {
            sp: x.session_present,
            code: ct::CONNACK.iter().chain(C_V4ONLY.iter()).find(|(_, v)| *v == x.code).unwrap().0,
            props: cp::connack_from(&x.properties),
        },
        c5::Packet::Publish(x) => Canon5::Publish {
            dup: x.dup,
            qos: x.qos as u8,
            retain: x.retain,
            topic: x.topic.to_vec(),
            pkid: x.pkid,
            payload: x.payload.to_vec(),
            props: cp::publish_from(&x.properties),
        },
        c5::Packet::PubAck(x) => Canon5::PubAck { pkid: x.pkid, reason: code_from(&ct::PUBACK, &x.reason), props: c_puback_from(&x.properties) },
        c5::Packet::PubRec(x) => Canon5::PubRec { pkid: x.pkid, reason: code_from(&ct::PUBREC, &x.reason), props: c_pubrec_from(&x.properties) },
        c5::Packet::PubRel(x) => Canon5::PubRel { pkid: x.pkid, reason: code_from(&ct::PUBREL, &x.reason), props: c_pubrel_from(&x.properties) },
        c5::Packet::PubComp(x) => Canon5::PubComp { pkid: x.pkid, reason: code_from(&ct::PUBCOMP, &x.reason), props: c_pubcomp_from(&x.properties) },
        c5::Packet::Subscribe(x) => Canon5::Subscribe {
            pkid: x.pkid,
            filters: x
                .filters
                .iter()
                .map(|f| {
                    (
                        f.path.clone().into_bytes(),
                        f.qos as u8,
                        f.nolocal,
                        f.preserve_retain,
                        ct::RULES.iter().position(|r| *r == f.retain_forward_rule).unwrap() as u8,
                    )
                })
                .collect(),
            props: cp::subscribe_from(&x.properties),
        },
        c5::Packet::SubAck(x) => Canon5::SubAck {
            pkid: x.pkid,
            codes: x
                .return_codes
                .iter()
                .map(|k| match k {
                    c5::SubscribeReasonCode::Success(q) => Rc_::Success(*q as u8),
                    c5::SubscribeReasonCode::Failure => Rc_::Failure,
                    c5::SubscribeReasonCode::Unspecified => Rc_::Unspecified,
                    o => Rc_::Other(code_from(&ct::SUB_OTHER, o)),
                })
                .collect(),
            props: c_suback_from(&x.properties),
        },
        c5::Packet::Unsubscribe(x) => Canon5::Unsubscribe {
            pkid: x.pkid,
            topics: x.filters.iter().map(|t| t.clone().into_bytes()).collect(),
            props: cp::unsubscribe_from(&x.properties),
        },
        c5::Packet::UnsubAck(x) => Canon5::UnsubAck {
            pkid: x.pkid,
            reasons: x.reasons.iter().map(|r| code_from(&ct::UNSUBACK, r)).collect(),
            props: c_unsuback_from(&x.properties),
        },
        c5::Packet::PingReq(_) => Canon5::PingReq,
        c5::Packet::PingResp(_) => Canon5::PingResp,
        c5::Packet::Disconnect(x) => Canon5::Disconnect { reason: code_from(&ct::DISCONNECT, &x.reason_code), props: cp::disconnect_from(&x.properties) },
        c5::Packet::Auth(_) => panic!("client decoded an AUTH packet"),
    }
}

// ------------------------------------------------------------------ broker <-> canonical

fn to_broker5(p: &Canon5) -> Result<b::Packet, Unrep> {
    Ok(match p {
        Canon5::Connect { ka, id, clean, props, will, login } => b::Packet::Connect(
            b::Connect { keep_alive: *ka, client_id: s(id)?, clean_session: *clean },
            bp::connect_to(props)?,
            will.as_ref().map(|w| b::LastWill {
                topic: Bytes::from(w.topic.clone()),
                message: Bytes::from(w.message.clone()),
                qos: b_qos(w.qos),
                retain: w.retain,
            }),
            match will {
                None => None,
                Some(w) => bp::will_to(&w.props)?,
            },
            match login {
                None => None,
                Some((u, p)) => Some(b::Login { username: s(u)?, password: s(p)? }),
            },
        ),
        Canon5::ConnAck { sp, code, props } => b::Packet::ConnAck(
            b::ConnAck { session_present: *sp, code: code_to(&bt::CONNACK, *code).or_else(|_| code_to(&B_V4ONLY, *code))? },
            bp::connack_to(props)?,
        ),
        Canon5::Publish { dup, qos, retain, topic, pkid, payload, props } => {
            b::Packet::Publish(b_publish(*dup, *qos, *retain, topic, *pkid, payload), bp::publish_to(props)?)
        }
        Canon5::PubAck { pkid, reason, props } => {
            b::Packet::PubAck(b::PubAck { pkid: *pkid, reason: code_to(&bt::PUBACK, *reason)? }, b_puback_to(props)?)
        }
        Canon5::PubRec { pkid, reason, props } => {
            b::Packet::PubRec(b::PubRec { pkid: *pkid, reason: code_to(&bt::PUBREC, *reason)? }, b_pubrec_to(props)?)
        }
        Canon5::PubRel { pkid, reason, props } => {
            b::Packet::PubRel(b::PubRel { pkid: *pkid, reason: code_to(&bt::PUBREL, *reason)? }, b_pubrel_to(props)?)
        }
        Canon5::PubComp { pkid, reason, props } => {
            b::Packet::PubComp(b::PubComp { pkid: *pkid, reason: code_to(&bt::PUBCOMP, *reason)? }, b_pubcomp_to(props)?)
        }
        Canon5::Subscribe { pkid, filters, props } => {
            let mut fs = vec![];
            for (path, q, nl, pr, rule) in filters {
                fs.push(b::Filter {
                    path: s(path)?,
                    qos: b_qos(*q),
                    nolocal: *nl,
                    preserve_retain: *pr,
                    retain_forward_rule: bt::RULES.get(*rule as usize).ok_or(Unrep)?.clone(),
                });
            }
            b::Packet::Subscribe(b::Subscribe { pkid: *pkid, filters: fs }, bp::subscribe_to(props)?)
        }
        Canon5::SubAck { pkid, codes, props } => {
            let mut cs = vec![];
            for code in codes {
                cs.push(match code {
                    Rc_::Success(q) => b::SubscribeReasonCode::Success(b_qos(*q)),
                    Rc_::Failure => b::SubscribeReasonCode::Failure,
                    Rc_::QoS(0) => b::SubscribeReasonCode::QoS0,
                    Rc_::QoS(1) => b::SubscribeReasonCode::QoS1,
                    Rc_::QoS(_) => b::SubscribeReasonCode::QoS2,
                    Rc_::Unspecified => b::SubscribeReasonCode::Unspecified,
                    Rc_::Other(x) => code_to(&bt::SUB_OTHER, *x)?,
                });
            }
            b::Packet::SubAck(b::SubAck { pkid: *pkid, return_codes: cs }, b_suback_to(props)?)
        }
        Canon5::Unsubscribe { pkid, topics, props } => {
            let mut ts = vec![];
            for t in topics {
                ts.push(s(t)?);
            }
            b::Packet::Unsubscribe(b::Unsubscribe { pkid: *pkid, filters: ts }, bp::unsubscribe_to(props)?)
        }
        Canon5::UnsubAck { pkid, reasons, props } => {
            let mut rs = vec![];
            for r in reasons {
                rs.push(code_to(&bt::UNSUBACK, *r)?);
            }
            b::Packet::UnsubAck(b::UnsubAck { pkid: *pkid, reasons: rs }, b_unsuback_to(props)?)
        }
        Canon5::PingReq => b::Packet::PingReq(b::PingReq),
        Canon5::PingResp => b::Packet::PingResp(b::PingResp),
        Canon5::Disconnect { reason, props } => {
            b::Packet::Disconnect(b::Disconnect { reason_code: code_to(&bt::DISCONNECT, *reason)? }, bp::disconnect_to(props)?)
        }
    })
}

fn from_broker5(p: b::Packet) -> Canon5 {
    match p {
        b::Packet::Connect(x, props, will, willprops, login) => Canon5::Connect {
            ka: x.keep_alive,
            id: x.client_id.into_bytes(),
            clean: x.clean_session,
            props: bp::connect_from(&props),
            will: match will {
                Some(w) => Some(Will5 { topic: w.topic.to_vec(), message: w.message.to_vec(), qos: w.qos as u8, retain: w.retain, props: bp::will_from(&willprops) }),
                None => {
                    assert!(willprops.is_none(), "will properties without a will");
                    None
                }
            },
            login: login.map(|l| (l.username.into_bytes(), l.password.into_bytes())),
        },
        b::Packet::ConnAck(x, props) => Canon5::ConnAck {
            sp: x.session_present,
            code: bt::CONNACK.iter().chain(B_V4ONLY.iter()).find(|(_, v)| *v == x.code).expect("v4-only ConnAck code decoded by v5").0,
            props: bp::connack_from(&props),
        },
        b::Packet::Publish(x, props) => {
            let (dup, qos, pkid) = b_publish_fields(&x);
            Canon5::Publish { dup, qos, retain: x.retain, topic: x.topic.to_vec(), pkid, payload: x.payload.to_vec(), props: bp::publish_from(&props) }
        }
        b::Packet::PubAck(x, props) => Canon5::PubAck { pkid: x.pkid, reason: code_from(&bt::PUBACK, &x.reason), props: b_puback_from(&props) },
        b::Packet::PubRec(x, props) => Canon5::PubRec { pkid: x.pkid, reason: code_from(&bt::PUBREC, &x.reason), props: b_pubrec_from(&props) },
        b::Packet::PubRel(x, props) => Canon5::PubRel { pkid: x.pkid, reason: code_from(&bt::PUBREL, &x.reason), props: b_pubrel_from(&props) },
        b::Packet::PubComp(x, props) => Canon5::PubComp { pkid: x.pkid, reason: code_from(&bt::PUBCOMP, &x.reason), props: b_pubcomp_from(&props) },
        b::Packet::Subscribe(x, props) => Canon5::Subscribe {
            pkid: x.pkid,
            filters: x
                .filters
                .into_iter()
                .map(|f| (f.path.into_bytes(), f.qos as u8, f.nolocal, f.preserve_retain, bt::RULES.iter().position(|r| *r == f.retain_forward_rule).unwrap() as u8))
                .collect(),
            props: bp::subscribe_from(&props),
        },
        b::Packet::SubAck(x, props) => Canon5::SubAck {
            pkid: x.pkid,
            codes: x
                .return_codes
                .iter()
                .map(|k| match k {
                    b::SubscribeReasonCode::Success(q) => Rc_::Success(*q as u8),
                    b::SubscribeReasonCode::Failure => Rc_::Failure,
                    b::SubscribeReasonCode::QoS0 => Rc_::QoS(0),
                    b::SubscribeReasonCode::QoS1 => Rc_::QoS(1),
                    b::SubscribeReasonCode::QoS2 => Rc_::QoS(2),
                    b::SubscribeReasonCode::Unspecified => Rc_::Unspecified,
                    o => Rc_::Other(code_from(&bt::SUB_OTHER, o)),
                })
                .collect(),
            props: b_suback_from(&props),
        },
        b::Packet::Unsubscribe(x, props) => {
            Canon5::Unsubscribe { pkid: x.pkid, topics: x.filters.into_iter().map(|t| t.into_bytes()).collect(), props: bp::unsubscribe_from(&props) }
        }
        b::Packet::UnsubAck(x, props) => {
            Canon5::UnsubAck { pkid: x.pkid, reasons: x.reasons.iter().map(|r| code_from(&bt::UNSUBACK, r)).collect(), props: b_unsuback_from(&props) }
        }
        b::Packet::PingReq(_) => Canon5::PingReq,
        b::Packet::PingResp(_) => Canon5::PingResp,
        b::Packet::Disconnect(x, props) => Canon5::Disconnect { reason: code_from(&bt::DISCONNECT, &x.reason_code), props: bp::disconnect_from(&props) },
    }
}

// ------------------------------------------------------------------ ops

fn c5_kind(e: &c5m::Error) -> String {
    kind_of_debug(&format!("{e:?}"))
}

/// `max` token: a number, or "none" (client only: max_size = None)
fn cmax(m: &str) -> Option<u32> {
    if m == "none" {
        None
    } else {
        Some(num(m))
    }
}

pub fn enc5(fl: &str, max: &str, p: &Canon5) -> String {
    match fl {
        "C" => {
            let Ok(pkt) = to_client5(p) else { return "ERR Unrepresentable".into() };
            let mx = cmax(max);
            let r = catch_unwind(AssertUnwindSafe(|| {
                let mut buf = BytesMut::new();
                let size = pkt.size();
                pkt.write(&mut buf, mx).map(|ret| (buf, ret, size))
            }));
            match r {
                Err(_) => "PANIC".into(),
                Ok(Err(e)) => format!("ERR {}", c5_kind(&e)),
                Ok(Ok((buf, ret, size))) => format!("OK {} {} {}", hex(&buf), ret, size),
            }
        }
        "B" => {
            let Ok(pkt) = to_broker5(p) else { return "ERR Unrepresentable".into() };
            let r = catch_unwind(AssertUnwindSafe(|| {
                let mut buf = BytesMut::new();
                b::v5::V5.write(pkt, &mut buf).map(|ret| (buf, ret))
            }));
            match r {
                Err(_) => "PANIC".into(),
                Ok(Err(e)) => format!("ERR {}", b_kind(&e)),
                Ok(Ok((buf, ret))) => format!("OK {} {} -", hex(&buf), ret),
            }
        }
        _ => panic!("bad flavour"),
    }
}

pub fn dec5(fl: &str, max: &str, bytes: &[u8]) -> String {
    let mut buf = BytesMut::from(bytes);
    let before = buf.len();
    match fl {
        "C" => {
            let mx = cmax(max);
            match catch_unwind(AssertUnwindSafe(|| c5::Packet::read(&mut buf, mx))) {
                Err(_) => "PANIC".into(),
                Ok(Ok(p)) => format!("PKT {} {}", show_canon5(&from_client5(p)), before - buf.len()),
                Ok(Err(c5m::Error::InsufficientBytes(k))) => format!("MORE {k}"),
                Ok(Err(e)) => format!("MAL {} {}", c5_kind(&e), before - buf.len()),
            }
        }
        "B" => {
            let mx: usize = num(max);
            match catch_unwind(AssertUnwindSafe(|| b::v5::V5.read_mut(&mut buf, mx))) {
                Err(_) => "PANIC".into(),
                Ok(Ok(p)) => format!("PKT {} {}", show_canon5(&from_broker5(p)), before - buf.len()),
                Ok(Err(b::Error::InsufficientBytes(k))) => format!("MORE {k}"),
                Ok(Err(e)) => format!("MAL {} {}", b_kind(&e), before - buf.len()),
            }
        }
        _ => panic!("bad flavour"),
    }
}

pub fn stream5(fl: &str, max: &str, chunks: &[Vec<u8>]) -> String {
    if fl == "C" {
        let mx = cmax(max);
        run_stream(chunks, move |rx, out| {
            let mut net = rumqttc::verif::NetworkV5::new(rx, mx);
            Box::pin(async move {
                loop {
                    match net.read().await {
                        Ok(p) => out.borrow_mut().push(format!("PKT {}", show_canon5(&from_client5(p)))),
                        Err(rumqttc::v5::StateError::ConnectionAborted) => {
                            out.borrow_mut().push("END clean".into());
                            break;
                        }
                        Err(rumqttc::v5::StateError::Deserialization(c5m::Error::Io(_))) => {
                            out.borrow_mut().push("END partial".into());
                            break;
                        }
                        Err(rumqttc::v5::StateError::Deserialization(e)) => {
                            out.borrow_mut().push(format!("MAL {}", c5_kind(&e)));
                            break;
                        }
                        Err(e) => {
                            out.borrow_mut().push(format!("OTHER {e:?}").replace(' ', "_"));
                            break;
                        }
                    }
                }
            })
        })
    } else {
        let mx: usize = num(max);
        run_stream(chunks, move |rx, out| {
            let mut net = rumqttd::verif::Network::new(Box::new(rx), mx, 4, b::v5::V5);
            Box::pin(async move {
                loop {
                    match net.read().await {
                        Ok(p) => out.borrow_mut().push(format!("PKT {}", show_canon5(&from_broker5(p)))),
                        Err(e) => {
                            out.borrow_mut().push(net_term(e));
                            break;
                        }
                    }
                    let mut q = VecDeque::new();
                    let r = net.readv(&mut q);
                    for p in q {
                        out.borrow_mut().push(format!("PKT {}", show_canon5(&from_broker5(p))));
                    }
                    if let Err(e) = r {
                        out.borrow_mut().push(net_term(e));
                        break;
                    }
                }
            })
        })
    }
}
