//! Correspondence driver for M-LOG (C13): runs the real `CommitLog<Item>` on the op lines
//! read from stdin, one answer line per op line (same language as ocaml/log_driver.ml):
//!   NEW <max_seg_size> <max_mem>  -> OK | PANIC        (resets log and pool)
//!   A <id> <size>                 -> <seg> <off> | PANIC
//!   R <seg> <off> <len>           -> N|D <s.seg> <s.off> <e.seg> <e.off> [<id>@<seg>.<off>]* | PANIC
//!   RP <k> <len>                  -> same | NOPOOL     (k-th cursor of the pool modulo its size;
//!                                                       k < 0 counts from the newest, -1 = newest)
//!   NO                            -> <seg> <off> | PANIC
//! The pool holds every cursor issued so far in order of issue: append return values,
//! next_offset results and, for RP reads, start, end, then each returned entry's offset.
//! Literal `R` reads do not feed the pool.  Before a successful NEW, or after an append
//! panicked, every op answers NOLOG.
use rumqttd::verif::{CommitLog, Position, Storage};
use std::io::{self, BufRead, BufWriter, Write};
use std::panic::{catch_unwind, AssertUnwindSafe};
use verif_harness::*;

#[derive(Clone)]
struct Item {
    id: u64,
    size: usize,
}

impl Storage for Item {
    fn size(&self) -> usize {
        self.size
    }
}

type Cursor = (u64, u64);

fn fmt_read(pos: &Position, out: &[(Item, Cursor)]) -> String {
    let (tag, s, e) = match pos {
        Position::Next { start, end } => ("N", *start, *end),
        Position::Done { start, end } => ("D", *start, *end),
    };
    let mut line = format!("{tag} {} {} {} {}", s.0, s.1, e.0, e.1);
    for (it, (sg, off)) in out {
        line.push_str(&format!(" {}@{}.{}", it.id, sg, off));
    }
    line
}

fn read(log: &CommitLog<Item>, c: Cursor, len: u64) -> Option<(Position, Vec<(Item, Cursor)>)> {
    catch_unwind(AssertUnwindSafe(|| {
        let mut out = Vec::new();
        let pos = log.readv(c, len, &mut out).expect("readv never returns Err");
        (pos, out)
    }))
    .ok()
}

fn main() {
    silence_panics();
    let stdin = io::stdin();
    let mut w = BufWriter::new(io::stdout());
    let mut log: Option<CommitLog<Item>> = None;
    let mut pool: Vec<Cursor> = Vec::new();
    for line in stdin.lock().lines() {
        let line = line.unwrap();
        let t: Vec<&str> = line.split_whitespace().collect();
        if t.is_empty() {
            continue;
        }
        let u = |s: &str| -> u64 { s.parse::<u64>().expect("op file: unsigned 64-bit decimal") };
        if t[0] == "NEW" {
            let (ms, mm) = (u(t[1]) as usize, u(t[2]) as usize);
            pool.clear();
            log = catch_unwind(|| CommitLog::<Item>::new(ms, mm).unwrap()).ok();
            writeln!(w, "{}", if log.is_some() { "OK" } else { "PANIC" }).unwrap();
            continue;
        }
        let Some(l) = log.as_mut() else {
            writeln!(w, "NOLOG").unwrap();
            continue;
        };
        match t[0] {
            "A" => {
                let it = Item { id: u(t[1]), size: u(t[2]) as usize };
                match catch_unwind(AssertUnwindSafe(|| l.append(it))) {
                    Ok(c) => {
                        pool.push(c);
                        writeln!(w, "{} {}", c.0, c.1).unwrap();
                    }
                    Err(_) => {
                        log = None;
                        writeln!(w, "PANIC").unwrap();
                    }
                }
            }
            "NO" => match catch_unwind(AssertUnwindSafe(|| l.next_offset())) {
                Ok(c) => {
                    pool.push(c);
                    writeln!(w, "{} {}", c.0, c.1).unwrap();
                }
                Err(_) => writeln!(w, "PANIC").unwrap(),
            },
            "R" => match read(l, (u(t[1]), u(t[2])), u(t[3])) {
                Some((pos, out)) => writeln!(w, "{}", fmt_read(&pos, &out)).unwrap(),
                None => writeln!(w, "PANIC").unwrap(),
            },
            "RP" => {
                if pool.is_empty() {
                    writeln!(w, "NOPOOL").unwrap();
                    continue;
                }
                let n = pool.len() as u64;
                let idx = if let Some(j) = t[1].strip_prefix('-') {
                    // -1 = newest
                    n - 1 - ((u(j) - 1) % n)
                } else {
                    u(t[1]) % n
                };
                let c = pool[idx as usize];
                match read(l, c, u(t[2])) {
                    Some((pos, out)) => {
                        let (s, e) = match pos {
                            Position::Next { start, end } | Position::Done { start, end } => (start, end),
                        };
                        pool.push(s);
                        pool.push(e);
                        pool.extend(out.iter().map(|(_, o)| *o));
                        writeln!(w, "{}", fmt_read(&pos, &out)).unwrap();
                    }
                    None => writeln!(w, "PANIC").unwrap(),
                }
            }
            other => panic!("bad op {other}"),
        }
    }
}
