//! Correspondence driver for M-TOPIC: runs the three Rust copies of
//! matches / valid_filter / valid_topic / has_wildcards on the ops read from stdin.
//! Line format (hex of UTF-8 bytes, "-" = empty):
//!   M <topic> <filter> | VF <s> | VT <s> | HW <s>
//! Output: one line per op: "<r_client_v4> <r_client_v5> <r_broker>", r in {T,F,PANIC}.
use std::io::{self, BufRead, BufWriter, Write};
use std::panic::catch_unwind;
use verif_harness::*;

fn r(f: impl FnOnce() -> bool + std::panic::UnwindSafe) -> &'static str {
    match catch_unwind(f) {
        Ok(true) => "T",
        Ok(false) => "F",
        Err(_) => "PANIC",
    }
}

fn s(h: &str) -> String {
    String::from_utf8(unhex(h)).expect("op file must contain valid UTF-8 only")
}

fn main() {
    silence_panics();
    let stdin = io::stdin();
    let mut out = BufWriter::new(io::stdout());
    for line in stdin.lock().lines() {
        let line = line.unwrap();
        let t: Vec<&str> = line.split_whitespace().collect();
        if t.is_empty() {
            continue;
        }
        let (a, b, c) = match t[0] {
            "M" => {
                let (x, y) = (s(t[1]), s(t[2]));
                (
                    r(|| rumqttc::matches(&x, &y)),
                    r(|| rumqttc::v5::mqttbytes::matches(&x, &y)),
                    r(|| rumqttd::protocol::matches(&x, &y)),
                )
            }
            "VF" => {
                let x = s(t[1]);
                (
                    r(|| rumqttc::valid_filter(&x)),
                    r(|| rumqttc::v5::mqttbytes::valid_filter(&x)),
                    r(|| rumqttd::protocol::valid_filter(&x)),
                )
            }
            "VT" => {
                let x = s(t[1]);
                (
                    r(|| rumqttc::valid_topic(&x)),
                    r(|| rumqttc::v5::mqttbytes::valid_topic(&x)),
                    r(|| rumqttd::protocol::valid_topic(&x)),
                )
            }
            "HW" => {
                let x = s(t[1]);
                (
                    r(|| rumqttc::has_wildcards(&x)),
                    r(|| rumqttc::v5::mqttbytes::has_wildcards(&x)),
                    r(|| rumqttd::protocol::has_wildcards(&x)),
                )
            }
            other => panic!("bad op {other}"),
        };
        writeln!(out, "{a} {b} {c}").unwrap();
    }
}
