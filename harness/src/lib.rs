//! Shared helpers for the correspondence drivers.
use std::panic;

pub fn silence_panics() {
    panic::set_hook(Box::new(|_| {}));
}

pub fn hex(b: &[u8]) -> String {
    if b.is_empty() {
        return "-".to_string();
    }
    let mut s = String::with_capacity(b.len() * 2);
    for x in b {
        s.push_str(&format!("{:02x}", x));
    }
    s
}

pub fn unhex(s: &str) -> Vec<u8> {
    if s == "-" {
        return vec![];
    }
    let b = s.as_bytes();
    let mut out = Vec::with_capacity(b.len() / 2);
    let mut i = 0;
    while i + 1 < b.len() {
        let h = (b[i] as char).to_digit(16).unwrap() as u8;
        let l = (b[i + 1] as char).to_digit(16).unwrap() as u8;
        out.push(h * 16 + l);
        i += 2;
    }
    out
}

/// splitmix64: the single PRNG used by every generator on the Rust side.
pub struct Rng(pub u64);
impl Rng {
    pub fn next(&mut self) -> u64 {
        self.0 = self.0.wrapping_add(0x9E3779B97F4A7C15);
        let mut z = self.0;
        z = (z ^ (z >> 30)).wrapping_mul(0xBF58476D1CE4E5B9);
        z = (z ^ (z >> 27)).wrapping_mul(0x94D049BB133111EB);
        z ^ (z >> 31)
    }
    pub fn below(&mut self, n: u64) -> u64 {
        self.next() % n
    }
}
